#!/bin/bash
# Copies /repo's current working tree to work/twofloat_nostd and renames the package so the
# default-features build and the no_std build of the SAME source can be linked into one binary (C11).
set -e
cd "$(dirname "$0")"
REPO="${VERIF_REPO:-/repo}"
mkdir -p work/twofloat_nostd
rsync -a --delete --exclude target --exclude .git --exclude Cargo.lock "$REPO"/ work/twofloat_nostd/
sed -i '0,/^name = "twofloat"/s//name = "twofloat-nostd"/' work/twofloat_nostd/Cargo.toml
# a second renamed copy, built with default features + verif_hooks: the ONLY build in which the hooks are on.
# All property checks observe the crate exactly as users compile it (path = /repo, no verif_hooks); the hooked
# copy serves C07 (is_valid of arbitrary word pairs), C11 (the internal fma) and the hooks-neutrality differential.
mkdir -p work/twofloat_hooked
rsync -a --delete --exclude target --exclude .git --exclude Cargo.lock "$REPO"/ work/twofloat_hooked/
sed -i '0,/^name = "twofloat"/s//name = "twofloat-hooked"/' work/twofloat_hooked/Cargo.toml
# the numeric literals of the crate's own source, as a dictionary of operand high words (see harvest_literals.py)
python3 "$(dirname "$0")/harvest_literals.py" work/twofloat_nostd work/literals.txt > /dev/null 2>&1 || : > work/literals.txt
