//! Isolated evaluation server for C11: one build configuration of /repo's working tree per
//! process, compiled by its OWN cargo invocation so that cargo's feature unification cannot
//! leak `std` (of num-traits, libm, ...) from the test harness into the crate under test.
//! Protocol (little endian): on start the entry names ("name\n"..., then an empty line);
//! then per request 88 bytes (entry u32, 8 x f64 bits, n i32, i i128) -> reply: status u8
//! (0 = returned, 1 = panicked), count u8, count x (hi bits u64, lo bits u64).
use std::io::{Read, Write};

#[path = "../../harness/tfcheck/src/api.rs"]
#[allow(dead_code)]
mod api;

pub fn serve() {
    std::panic::set_hook(Box::new(|_| {}));
    let tab = api::iso_build::table();
    let stdin = std::io::stdin();
    let stdout = std::io::stdout();
    let mut inp = stdin.lock();
    let mut out = std::io::BufWriter::new(stdout.lock());
    for e in &tab {
        out.write_all(e.name.as_bytes()).unwrap();
        out.write_all(b"\n").unwrap();
    }
    out.write_all(b"\n").unwrap();
    out.flush().unwrap();
    let mut rec = [0u8; 88];
    loop {
        if inp.read_exact(&mut rec).is_err() {
            return;
        }
        let u = |k: usize| u64::from_le_bytes(rec[4 + 8 * k..12 + 8 * k].try_into().unwrap());
        let f = |k: usize| f64::from_bits(u(k));
        let idx = u32::from_le_bytes(rec[0..4].try_into().unwrap()) as usize;
        let x = api::Args {
            a: (f(0), f(1)),
            b: (f(2), f(3)),
            c: (f(4), f(5)),
            f: f(6),
            g: f(7),
            n: i32::from_le_bytes(rec[68..72].try_into().unwrap()),
            i: i128::from_le_bytes(rec[72..88].try_into().unwrap()),
        };
        let r = std::panic::catch_unwind(|| (tab[idx].f)(&x));
        match r {
            Ok(o) => {
                out.write_all(&[0u8, o.len() as u8]).unwrap();
                for w in o {
                    out.write_all(&w.0.to_bits().to_le_bytes()).unwrap();
                    out.write_all(&w.1.to_bits().to_le_bytes()).unwrap();
                }
            }
            Err(_) => out.write_all(&[1u8, 0u8]).unwrap(),
        }
        out.flush().unwrap();
    }
}
