#[path = "../../src/runner.rs"]
mod runner;
fn main() {
    runner::serve()
}
