#![no_main]
//! libFuzzer target: bytes -> 8-byte little-endian words = the same choice words the proptest
//! runner uses -> the same evaluator (C01/programs).  The semantic oracle is inside the target.
use libfuzzer_sys::fuzz_target;

fuzz_target!(|data: &[u8]| {
    tfcheck::fuzzing::run("C01", "programs", data);
});
