#![no_main]
//! libFuzzer target for all generated sub-checks of C06: first byte -> sub-check, remaining bytes ->
//! 8-byte little-endian choice words -> the same evaluators (and oracle) as the proptest runner.
use libfuzzer_sys::fuzz_target;

fuzz_target!(|data: &[u8]| {
    tfcheck::fuzzing::run_any("C06", data);
});
