#![no_main]
//! libFuzzer target: bytes -> 8-byte little-endian words = the same choice words the proptest
//! runner uses -> the same evaluator (C09/try_from).  The semantic oracle is inside the target.
use libfuzzer_sys::fuzz_target;

fuzz_target!(|data: &[u8]| {
    tfcheck::fuzzing::run("C09", "try_from", data);
});
