#![no_main]
//! libFuzzer target: bytes -> 8-byte little-endian words = the same choice words the proptest
//! runner uses -> the same evaluator (C07/random).  The semantic oracle is inside the target.
use libfuzzer_sys::fuzz_target;

fuzz_target!(|data: &[u8]| {
    tfcheck::fuzzing::run("C07", "random", data);
});
