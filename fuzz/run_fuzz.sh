#!/bin/bash
# Thorough-tier fuzz stage: ./run_fuzz.sh <ID> <SEED>
#   exit 0: no violation (or no fuzz target for this property); 1: violation (VIOLATION line printed); 2: inconclusive
# Coverage-guided libFuzzer campaigns over the SAME evaluators as the proptest runner; bounded by -runs
# (fixed work, not a time quota), fresh corpus under work/ seeded with a few valid inputs, also tried from empty.
set -u
cd "$(dirname "$0")"
VERIF="$(cd .. && pwd)"
ID="$1"; SEED="${2:-1}"
case "$ID" in
  C01) TARGETS="c01_programs";;
  C02) TARGETS="c02_ctor";;
  C03) TARGETS="c03_addsub";;
  C04) TARGETS="c04_mul";;
  C05) TARGETS="c05_div";;
  C06) TARGETS="c06_cmp";;
  C10) TARGETS="c10_forms";;
  C13) TARGETS="c13_pow";;
  C19) TARGETS="c19_rem";;
  C07) TARGETS="c07_pairs";;
  C08) TARGETS="c08_round";;
  C09) TARGETS="c09_try_from";;
  C20) TARGETS="c20_json";;
  *) exit 0;;
esac
RUNS="${VERIF_FUZZ_RUNS:-20000000}"
# the program target interprets up to 48 API calls per input: a smaller fixed budget
[ "$ID" = C01 ] && RUNS="${VERIF_FUZZ_RUNS:-3000000}"
# whole-property targets (several sub-checks behind one entry; sub-checks with long cases are left
# to the proptest runner, see fuzzing.rs): about 10^4 executions per second
case "$ID" in C03|C10|C13) RUNS="${VERIF_FUZZ_RUNS:-10000000}";; esac
export CARGO_NET_OFFLINE=true VERIF_DIR="$VERIF"
[ "$SEED" = 0 ] && SEED=1
rc=0
for T in $TARGETS; do
  cargo +nightly fuzz build -s none --fuzz-dir "$VERIF/fuzz" "$T" > "$VERIF/work/fuzz_build_$T.log" 2>&1 || { tail -20 "$VERIF/work/fuzz_build_$T.log"; echo "INCONCLUSIVE: fuzz build failed for $T"; exit 2; }
  for MODE in seeded empty; do
    CORPUS="$VERIF/work/corpus_${T}_$MODE"
    rm -rf "$CORPUS"; mkdir -p "$CORPUS"
    if [ "$MODE" = seeded ] && [ -d "$VERIF/fuzz/seeds/$T" ]; then cp "$VERIF/fuzz/seeds/$T"/* "$CORPUS"/ 2>/dev/null; fi
    LOG="$VERIF/work/fuzz_${T}_$MODE.log"
    ( cd "$VERIF/work" && timeout 3000 cargo +nightly fuzz run -s none --fuzz-dir "$VERIF/fuzz" "$T" "$CORPUS" -- -runs=$((RUNS/2)) -seed="$SEED" -len_control=0 -max_len=2048 -workers=1 -print_final_stats=1 -artifact_prefix="$VERIF/work/artifact_${T}_" > "$LOG" 2>&1 )
    frc=$?
    EXECS=$(grep -E "stat::number_of_executed_units" "$LOG" | awk '{print $2}')
    COV=$(grep -E " cov: " "$LOG" | tail -1 | sed -E 's/.* cov: ([0-9]+).*/\1/')
    echo "fuzz $T ($MODE corpus): execs=${EXECS:-?} cov=${COV:-?} rc=$frc"
    python3 - "$VERIF/evidence/$ID.json" "$T" "$MODE" "${EXECS:-0}" "${COV:-0}" <<'PY'
import json, sys
p, t, mode, execs, cov = sys.argv[1:6]
try:
    d = json.load(open(p))
    d['coverage'].setdefault('fuzz', {})[t + ':' + mode] = {'engine': 'libFuzzer (cargo-fuzz 0.13, -s none)', 'executions': int(execs or 0), 'edge_coverage': int(cov or 0)}
    json.dump(d, open(p, 'w'), indent=1)
except Exception as e:
    print('could not record fuzz statistics:', e)
PY
    if grep -q "VIOLATION property=" "$LOG"; then
      grep "VIOLATION property=" "$LOG" | head -1
      rc=1
    elif [ $frc -eq 124 ]; then
      echo "fuzz $T: time limit hit (inconclusive for this campaign, not a violation)"
    elif [ $frc -ne 0 ]; then
      tail -5 "$LOG"; echo "INCONCLUSIVE: fuzzer exited with $frc without a semantic violation"; [ $rc -eq 0 ] && rc=2
    fi
  done
done
exit $rc
