#!/usr/bin/env python3
"""harvest_literals.py <repo> <out>: the fuzzing-dictionary idea applied to a numeric library - every numeric literal that
occurs in the crate's own source (decimal / scientific floats and integers, hexf64!("...") strings) is written, as the bit
pattern of the f64 the compiler would produce, one per line.  The generators use them as operand high words: a threshold
that a comparison in the source is keyed on is thereby hit EXACTLY (`x == 1e100`, `|x| > 354.5`, `n <= 3037000500`)."""
import re, struct, sys, os
repo, out = sys.argv[1], sys.argv[2]
vals = set()
short = set()   # written as decimal / scientific literals (thresholds, limits), as opposed to hexf table entries
def add(v, is_short=False):
    try:
        v = float(v)
    except (OverflowError, ValueError):
        return
    if v != v or v in (float('inf'), float('-inf')) or v == 0.0:
        return
    b = struct.unpack('<Q', struct.pack('<d', abs(v)))[0]
    vals.add(b)
    if is_short:
        short.add(b)
num = re.compile(r'(?<![\w.])(\d[\d_]*\.?[\d_]*(?:[eE][+-]?\d[\d_]*)?)(?:_?f64|_?f32|_?[iu](?:8|16|32|64|128|size))?(?![\w])')
hexf = re.compile(r'hexf64!\(\s*"([^"]+)"\s*\)')
for root, _, files in os.walk(os.path.join(repo, 'src')):
    for fn in files:
        if not fn.endswith('.rs'):
            continue
        text = open(os.path.join(root, fn), errors='replace').read()
        text = re.sub(r'//[^\n]*', lambda m: m.group(0) if re.search(r'\d', m.group(0)) else '', text)  # literals quoted in comments count too
        for m in hexf.finditer(text):
            try:
                add(float.fromhex(m.group(1).replace('_', '')))
            except ValueError:
                pass
        for m in num.finditer(text):
            t = m.group(1).replace('_', '')
            if t in ('', '.') or t.endswith('.') and not t[:-1].isdigit():
                continue
            add(t, True)
lits = sorted(vals)
with open(out, 'w') as f:
    for b in lits:
        f.write('%016x %s\n' % (b, 's' if b in short else 'h'))
print(len(lits))
