#!/bin/bash
# Run once after a fresh restore, offline: builds the harness from files on disk and validates the oracle.
set -e
cd "$(dirname "$0")"
export CARGO_NET_OFFLINE=true
export VERIF_DIR="$(pwd)"
mkdir -p work evidence replays
./sync_nostd.sh
( cd harness && cargo build --release --offline )
( cd harness_iso/std && cargo build --release --offline )
( cd harness_iso/nostd && cargo build --release --offline )
harness/target/release/tfcheck selftest
