#!/usr/bin/env python3
"""Regenerates MANIFEST.json from the table below (kept in one place so it stays consistent)."""
import json, subprocess

HOOK_COMMITS = ["865d191"]

CHECKS = {
 "C01": ("exact", "validity predicate as invariant (hi finite => lo finite and hi + lo == hi, hardware cross-checked by exact rounding) over a single-call sweep of 98 public entry points and over generated operation programs (stateful, model-free: invariant after every step, whole program shrinks as one value)", "5 C01"),
 "C02": ("exact", "error-free constructors: hi == RN(a op b) and hi+lo == a op b compared EXACTLY in dyadic arithmetic; new_div by cross-multiplication (no division in the oracle)", "5 C02"),
 "C03": ("exact", "proven relative bounds 3u^2+13u^3 / 2u^2 checked exactly (|r - (a±b)| <= beta|a±b| in dyadic arithmetic) on constructed cancellation / tie / gap operands; Sum vs explicit left fold bit-for-bit", "5 C03"),
 "C04": ("exact", "proven relative bounds 5u^2 / 2u^2 checked exactly against the exact dyadic product; exact points (x0, x±1, x2^k) compared exactly", "5 C04"),
 "C05": ("exact", "bounds 3u^2 / 16u^2 checked exactly by cross-multiplication |r*b - a| <= beta|a|; a/a == (1,0), /±1, /2^k exact", "5 C05"),
 "C06": ("exact", "comparison operators / partial_cmp / min / max / abs / signum / copysign against the exact dyadic values; symmetry and NaN rules over a pool of non-finite values produced by the API itself", "5 C06"),
 "C07": ("exact", "differential oracle: a finite && RN(a+b)==a evaluated on the hardware and by the exact-rounding model, over a complete exponent grid plus threshold-dense generated pairs; round trip of checked construction bit-for-bit", "5 C07"),
 "C08": ("exact", "reference model: exact floor/ceil/trunc/round-half-away/fract on dyadic rationals; results compared for exact equality, trunc+fract == x", "5 C08"),
 "C09": ("exact", "round-trip and reference model: exact integer values (8/16-bit exhaustive), trunc + range check computed exactly, all routes (TryFrom by value/ref, ToPrimitive, NumCast, FromPrimitive) compared", "5 C09"),
 "C10": ("exact", "metamorphic/differential: every spelling of an operation evaluated on the same operands and compared bit-for-bit (NaN == NaN); algebraic identities compared bit-for-bit with the sign-of-zero known finding K1", "5 C10"),
 "C11": ("exact", "differential testing of two builds of the same source (default features vs no_std + libm::fma) linked into one process on identical operand words, plus each build's fma against the exactly computed correctly rounded x*y+z; known finding K3 (sign of zero words of integer powers) recognised by entry, zero-sign-only difference and an alias-free replay", "5 C11"),
 "C12": ("exact", "complete enumeration of the constant table against a 640-bit reference (correct rounding of both words); generated operands for MIN <= x <= MAX and the angle conversions (bound 6u^2 against a 384-bit reference)", "5 C12"),
 "C13": ("exact", "sqrt/cbrt/hypot decided exactly through k-th powers of the result against (1±beta)^k x; powi against 640-bit binary powering with the (6|n|+16)u^2 bound, exact points, no-panic for every i32 incl. i32::MIN, powi(x,-n) == powi(x,n).recip() bit-for-bit", "5 C13"),
 "C14": ("hp", "differential against a 384-bit reference (exp, exp2, expm1, exp(y ln x)) with the property's floors; exact points, overflow/underflow regions, sign/parity/invalid rules, panic = violation; all 2045 integer arguments of exp2 enumerated", "5 C14"),
 "C15": ("hp", "differential against a 384-bit reference that forms x-1 / 1+x exactly; mixed absolute/relative floors as stated; log/log10 compared bit-for-bit with the quotient forms; log2(2^k) enumerated completely; domain errors", "5 C15"),
 "C16": ("hp", "differential against a 384-bit reference with pi to 544 bits; absolute/relative/tan bounds as stated; sin_cos == (sin, cos) bit-for-bit; invalid-in/invalid-out over the complete non-finite pool", "5 C16"),
 "C17": ("hp", "differential against a 384-bit reference (atan by argument halving, asin/acos via exact 1-x, 1+x); branch conventions of atan2 on all 72 axis combinations bit-for-bit; domain errors", "5 C17"),
 "C18": ("hp", "differential against cancellation-free 384-bit reference forms; both signs held to the same bound; exact points and domain errors", "5 C18"),
 "C19": ("exact", "reference model: exact rational quotient (integer division of the dyadic operands) gives trunc/floor/ceil and the near-integer predicate; remainder compared with a - k*b exactly within 16u^2 max(|a|,|b|); integer operands exact", "5 C19"),
 "C20": ("exact", "round-trip oracles: numerals parsed back with f64::from_str must give the words bit-for-bit; precision forms equal the f64 renderings; serde tokens / value tree / JSON text / serde::de::value deserializers: Ok <=> valid pair, words preserved; malformed shapes rejected", "5 C20"),
}

LEVEL_TEXT = {
 "exact": "Generated search (proptest-driven choice sequences, 16 deterministic workers, shrinking to a replay file) against an exact oracle: every comparison is made in exact dyadic-rational arithmetic, so there is no tolerance that could hide a violation or raise a false alarm. This is exploration, not proof: it shows the property on millions of adversarially constructed operands per run and reports how close to the bound the worst case came.",
}

LEVEL_TEXT["hp"] = "Generated search (proptest-driven choice sequences over argument strata built from the function's own range switches, table grid and domain edges) against a high-precision reference (oracle::Hp, 384 bits, agreeing with mpmath golden vectors to 2^-300 and re-verified at 512 bits on 1/64 of the cases). The comparison uses the property's own floors plus a 2^-250 relative slack for the oracle, 2^150 times smaller than any floor. Exploration, not proof: a violation confined to a sliver narrower than about 1e-7 of a stratum can escape the quick tier."
NOT_YET = {}
ALL = ["C%02d" % i for i in range(1, 21)]

def main():
    checks = []
    for pid in ALL:
        if pid not in CHECKS:
            continue
        kind, tech, ref = CHECKS[pid]
        checks.append({
            "property_id": pid,
            "quick_cmd": "./check %s quick" % pid,
            "thorough_cmd": "./check %s thorough" % pid,
            "evidence_file": "/verif/evidence/%s.json" % pid,
            "replay_cmd_template": "./check %s --replay {path}" % pid,
            "engine": "tfcheck",
            "level_claimed": {"category": "exploration", "text": LEVEL_TEXT[kind], "design_ref": "DESIGN.md section " + ref},
            "level_note": "Trusted: IEEE-754 binary64 + - * / sqrt of the host CPU; the Big/Hp oracle (validated on every run against the hardware and against mpmath golden vectors); proptest's generation and shrinking. No absence claim beyond the explored cases.",
            "technique": "property-based testing (proptest choice sequences + constructive generators) with an explicit oracle: " + tech,
        })
    na = [{"property_id": p, "reason": NOT_YET.get(p, "check not built yet in this revision of /verif (work in progress; the technique applies, see DESIGN.md section 5)")} for p in ALL if p not in CHECKS]
    m = {
        "version": 1,
        "setup_cmd": "./setup.sh",
        "hooks": {
            "guard": "cargo feature verif_hooks (off by default)",
            "enable": "every ./check copies /repo's current working tree to work/twofloat_hooked (package renamed) and builds THAT copy with features [serde, verif_hooks]; it is used only for is_valid() of arbitrary word pairs (C07), the internal fma (C11) and the hooks-neutrality differential (C11). All other observations use twofloat = { path = \"/repo\", features = [\"serde\"] } built WITHOUT the guard, i.e. the crate as users compile it, rebuilt from /repo's working tree on every run",
            "baseline_off_cmd": "cd /repo && cargo test --workspace --no-fail-fast --offline",
            "source_commits": HOOK_COMMITS,
            "add_only": True,
        },
        "engines": [
            {"name": "fuzz", "path": "/verif/fuzz", "serves_properties": ["C01", "C02", "C03", "C04", "C05", "C06", "C07", "C08", "C09", "C10", "C13", "C19", "C20"], "kind_free_text": "cargo-fuzz 0.13 / libFuzzer targets (thorough tier only): bytes -> the same u64 choice words -> the same evaluators as tfcheck; seeded and empty corpus, fixed -runs"},
            {"name": "iso_runners", "path": "/verif/harness_iso", "serves_properties": ["C11"], "kind_free_text": "two tiny server binaries (harness_iso/std, harness_iso/nostd), each its own cargo workspace compiled with exactly one feature configuration of the copy of /repo's working tree and no other dependency; tfcheck's C11/isolated_configurations sends generated operand words to both over pipes and compares the returned words"},
            {"name": "tfcheck", "path": "/verif/harness/tfcheck", "serves_properties": sorted(CHECKS), "kind_free_text": "proptest 1.11 TestRunner over u64 choice sequences decoded by constructive generators, followed by a targeted-search (hill-climbing on log2(error/bound)) phase; exact dyadic + 384-bit elementary-function oracle (harness/oracle); replay files in replays/<id>/"},
        ],
        "checks": checks,
        "not_applicable": na,
        "notes": "Genuine defects found on the pinned tree (15) were repaired by fix: commits in /repo and are listed in known_findings.json (status fixed); four sign-of-zero findings of C10 and one of C11 (integer powers across the two configurations) are listed there with status known (KNOWN-FINDING lines, exit 0); see DESIGN.md section 6. seeded/ holds 519 independently written breaking changes with which the checks were exercised (DESIGN.md section 11).",
    }
    json.dump(m, open("MANIFEST.json", "w"), indent=1)
    print("checks:", len(checks), "not_applicable:", len(na))

main()
