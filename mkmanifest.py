#!/usr/bin/env python3
"""Regenerates MANIFEST.json from the table below (kept in one place so it stays consistent)."""
import json, subprocess

HOOK_COMMITS = ["865d191"]

CHECKS = {
 "C02": ("exact", "error-free constructors: hi == RN(a op b) and hi+lo == a op b compared EXACTLY in dyadic arithmetic; new_div by cross-multiplication (no division in the oracle)", "5 C02"),
 "C03": ("exact", "proven relative bounds 3u^2+13u^3 / 2u^2 checked exactly (|r - (a±b)| <= beta|a±b| in dyadic arithmetic) on constructed cancellation / tie / gap operands; Sum vs explicit left fold bit-for-bit", "5 C03"),
 "C04": ("exact", "proven relative bounds 5u^2 / 2u^2 checked exactly against the exact dyadic product; exact points (x0, x±1, x2^k) compared exactly", "5 C04"),
 "C05": ("exact", "bounds 3u^2 / 16u^2 checked exactly by cross-multiplication |r*b - a| <= beta|a|; a/a == (1,0), /±1, /2^k exact", "5 C05"),
}

LEVEL_TEXT = {
 "exact": "Generated search (proptest-driven choice sequences, 16 deterministic workers, shrinking to a replay file) against an exact oracle: every comparison is made in exact dyadic-rational arithmetic, so there is no tolerance that could hide a violation or raise a false alarm. This is exploration, not proof: it shows the property on millions of adversarially constructed operands per run and reports how close to the bound the worst case came.",
}

NOT_YET = {}
ALL = ["C%02d" % i for i in range(1, 21)]

def main():
    checks = []
    for pid in ALL:
        if pid not in CHECKS:
            continue
        kind, tech, ref = CHECKS[pid]
        checks.append({
            "property_id": pid,
            "quick_cmd": "./check %s quick" % pid,
            "thorough_cmd": "./check %s thorough" % pid,
            "evidence_file": "/verif/evidence/%s.json" % pid,
            "replay_cmd_template": "./check %s --replay {path}" % pid,
            "engine": "tfcheck",
            "level_claimed": {"category": "exploration", "text": LEVEL_TEXT[kind], "design_ref": "DESIGN.md section " + ref},
            "level_note": "Trusted: IEEE-754 binary64 + - * / sqrt of the host CPU; the Big/Hp oracle (validated on every run against the hardware and against mpmath golden vectors); proptest's generation and shrinking. No absence claim beyond the explored cases.",
            "technique": "property-based testing (proptest choice sequences + constructive generators) with an explicit oracle: " + tech,
        })
    na = [{"property_id": p, "reason": NOT_YET.get(p, "check not built yet in this revision of /verif (work in progress; the technique applies, see DESIGN.md section 5)")} for p in ALL if p not in CHECKS]
    m = {
        "version": 1,
        "setup_cmd": "./setup.sh",
        "hooks": {
            "guard": "cargo feature verif_hooks (off by default)",
            "enable": "the harness depends on twofloat = { path = \"/repo\", features = [\"serde\", \"verif_hooks\"] }; every ./check rebuilds it from /repo's current working tree",
            "baseline_off_cmd": "cd /repo && cargo test --workspace --no-fail-fast --offline",
            "source_commits": HOOK_COMMITS,
            "add_only": True,
        },
        "engines": [
            {"name": "tfcheck", "path": "/verif/harness/tfcheck", "serves_properties": sorted(CHECKS), "kind_free_text": "proptest 1.11 TestRunner over u64 choice sequences decoded by constructive generators; exact dyadic + 384-bit elementary-function oracle (harness/oracle); replay files in replays/<id>/"},
        ],
        "checks": checks,
        "not_applicable": na,
        "notes": "Genuine defects found on the pinned tree were repaired by fix: commits in /repo and are listed in known_findings.json (status fixed); see DESIGN.md section 6.",
    }
    json.dump(m, open("MANIFEST.json", "w"), indent=1)
    print("checks:", len(checks), "not_applicable:", len(na))

main()
