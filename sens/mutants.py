"""Hand-written mutants of /repo (sensitivity plan of DESIGN.md section 8).  Each is a textual edit."""
A = 'src/arithmetic.rs'
B = 'src/base.rs'
C = 'src/convert.rs'
FR = 'src/functions/fraction.rs'
SG = 'src/functions/sign.rs'
PW = 'src/functions/power.rs'
EL = 'src/functions/explog.rs'
TR = 'src/functions/trigonometry.rs'
HY = 'src/functions/hyperbolic.rs'
NI = 'src/num_integration.rs'
FM = 'src/format.rs'
SE = 'src/serialization.rs'
CO = 'src/consts.rs'

def m(name, file, old, new, props, desc='', all=False):
    return dict(name=name, file=file, old=old, new=new, props=props, desc=desc, all=all)

MUTANTS = [
 # ---- C01 / C03
 m('add_tf_drop_final_renorm', A, '''        let (sh, sl) = TwoFloat::new_add(self.hi, *rhs).into();
        let v = self.lo + sl;
        fast_two_sum(sh, v)
    }

    /// Implements addition of `TwoFloat` and `f64` using Joldes et al.
    /// (2017) Algorithm 4.
    fn Add::add<'a, 'b>(self: &'a f64''', '''        let (sh, sl) = TwoFloat::new_add(self.hi, *rhs).into();
        let v = self.lo + sl;
        TwoFloat { hi: sh, lo: v }
    }

    /// Implements addition of `TwoFloat` and `f64` using Joldes et al.
    /// (2017) Algorithm 4.
    fn Add::add<'a, 'b>(self: &'a f64''', ['C01', 'C03', 'C10']),
 m('revert_F6_bigint', C, 'fast_two_sum(a, b)', 'Self { hi: a, lo: b }', ['C01', 'C09']),
 m('revert_F7_exp2', EL, 'fast_two_sum(mul_pow2(r1.hi, k as i32), mul_pow2(r1.lo, k as i32))', 'Self { hi: mul_pow2(r1.hi, k as i32), lo: mul_pow2(r1.lo, k as i32) }', ['C01', 'C14']),
 m('floor_keeps_fractional_lo', FR, '''        } else {
            libm::floor(self.hi).into()
        }''', '''        } else {
            Self { hi: libm::floor(self.hi), lo: self.lo }
        }''', ['C01', 'C08']),
 # ---- C02
 m('new_add_lo_db_only', A, 'Self { hi: s, lo: da + db }', 'Self { hi: s, lo: db }', ['C02', 'C03']),
 m('new_sub_sign_db', A, 'let lo = da - db;', 'let lo = da + db;', ['C02']),
 m('new_mul_no_fma', A, 'lo: fma(a, b, -p),', 'lo: a * b - p,', ['C02', 'C04']),
 m('new_div_drop_pl', A, '''        let dh = a - ph;
        let d = dh - pl;
        let tl = d / b;
        fast_two_sum(th, tl)''', '''        let dh = a - ph;
        let d = dh;
        let _ = pl;
        let tl = d / b;
        fast_two_sum(th, tl)''', ['C02']),
 # ---- C03
 m('add_tt_sloppy_drop_w', A, '''        let (vh, vl) = fast_two_sum(sh, c).into();
        let w = tl + vl;
        fast_two_sum(vh, w)
    }

    /// Implements subtraction of `TwoFloat` and `f64`''', '''        let (vh, vl) = fast_two_sum(sh, c).into();
        let w = vl;
        let _ = tl;
        fast_two_sum(vh, w)
    }

    /// Implements subtraction of `TwoFloat` and `f64`''', ['C03', 'C10']),
 m('subassign_tt_uses_add_for_lo', A, '''        let (sh, sl) = TwoFloat::new_sub(self.hi, rhs.hi).into();
        let (th, tl) = TwoFloat::new_sub(self.lo, rhs.lo).into();
        let c = sl + th;
        let (vh, vl) = fast_two_sum(sh, c).into();
        let w = tl + vl;
        *self = fast_two_sum(vh, w)''', '''        let (sh, sl) = TwoFloat::new_sub(self.hi, rhs.hi).into();
        let (th, tl) = TwoFloat::new_add(self.lo, rhs.lo).into();
        let c = sl + th;
        let (vh, vl) = fast_two_sum(sh, c).into();
        let w = tl + vl;
        *self = fast_two_sum(vh, w)''', ['C03', 'C10']),
 m('sum_folds_from_wrong_start', 'src/iter.rs', 'iter.fold(Self::zero(), <Self>::add)', 'iter.fold(Self::zero(), |a, b| <Self>::add(a, b) + 0.0)', ['C03', 'C10'], desc='extra +0.0 changes nothing in value; expected survivor unless sign of zero differs'),
 # ---- C04
 m('mul_tt_drop_cross_term', A, '''        let tl1 = fma(self.hi, rhs.lo, tl0);
        let cl2 = fma(self.lo, rhs.hi, tl1);
        let cl3 = cl1 + cl2;
        fast_two_sum(ch, cl3)''', '''        let tl1 = tl0;
        let cl2 = fma(self.lo, rhs.hi, tl1);
        let cl3 = cl1 + cl2;
        fast_two_sum(ch, cl3)''', ['C04']),
 m('mul_tt_drop_cl1', A, '''        let cl3 = cl1 + cl2;
        fast_two_sum(ch, cl3)
    }

    /// Implements division''', '''        let cl3 = cl2;
        let _ = cl1;
        fast_two_sum(ch, cl3)
    }

    /// Implements division''', ['C04']),
 m('mul_tt_drop_lolo', A, '''        let tl0 = self.lo * rhs.lo;
        let tl1 = fma(self.hi, rhs.lo, tl0);
        let cl2 = fma(self.lo, rhs.hi, tl1);
        let cl3 = cl1 + cl2;
        fast_two_sum(ch, cl3)''', '''        let tl0 = 0.0 * self.lo * rhs.lo;
        let tl1 = fma(self.hi, rhs.lo, tl0);
        let cl2 = fma(self.lo, rhs.hi, tl1);
        let cl3 = cl1 + cl2;
        fast_two_sum(ch, cl3)''', ['C04'], desc='drops lo*lo (< u^2 contribution): may legitimately stay inside 5u^2'),
 m('mulassign_tf_uses_hi_for_lo', A, '''        let cl3 = fma(self.lo, *rhs, cl1);
        *self = fast_two_sum(ch, cl3);''', '''        let cl3 = fma(self.hi * 1e-17, *rhs, cl1);
        *self = fast_two_sum(ch, cl3);''', ['C04', 'C10']),
 # ---- C05
 m('div_tt_two_digits', A, '''                let q3 = r.hi / rhs.hi;
                renorm3(q1, q2, q3)
    }

    fn Rem::rem''', '''                let q3 = 0.0 * r.hi / rhs.hi;
                renorm3(q1, q2, q3)
    }

    fn Rem::rem''', ['C05'], desc='third quotient digit dropped in TwoFloat/TwoFloat'),
 m('divassign_tt_diverges', A, '''        let q2 = r.hi / rhs.hi;
        r -=rhs* q2;
        let q3 = r.hi / rhs.hi;
        *self = renorm3(q1, q2, q3)''', '''        let q2 = r.hi / rhs.hi;
        r -=rhs* q2;
        let q3 = r.lo / rhs.hi;
        *self = renorm3(q1, q2, q3)''', ['C05', 'C10']),
 m('div_tf_without_lo', A, '''        let dt = dh - pl;
        let d = dt + self.lo;
        let tl = d / rhs;
        fast_two_sum(th, tl)''', '''        let dt = dh - pl;
        let d = dt;
        let tl = d / rhs;
        fast_two_sum(th, tl)''', ['C05']),
 # ---- C06
 m('revert_F1_eq_nan', B, '''            || other.hi.is_nan()
            || other.lo.is_nan()''', '''            || other.hi.is_nan()
            || self.lo.is_nan()''', ['C06']),
 m('partial_cmp_lo_reversed_when_negative', B, '''                if matches!(hi_cmp, Some(Ordering::Equal)) {
                    self.lo.partial_cmp(&other.lo)''', '''                if matches!(hi_cmp, Some(Ordering::Equal)) {
                    if self.hi < 0.0 { other.lo.partial_cmp(&self.lo) } else { self.lo.partial_cmp(&other.lo) }''', ['C06']),
 m('min_compares_hi_only', B, '''        } else if !other.is_valid() || self <= other {
            self
        } else {
            other
        }
    }

    /// Returns the maximum''', '''        } else if !other.is_valid() || self.hi <= other.hi {
            self
        } else {
            other
        }
    }

    /// Returns the maximum''', ['C06']),
 m('abs_tests_lo_sign', SG, '''        if self.hi > 0.0
            || (self.hi == 0.0 && self.hi.is_sign_positive() && self.lo.is_sign_positive())''', '''        if (self.hi > 0.0 && (self.lo >= 0.0 || self.hi > 1e-300))
            || (self.hi == 0.0 && self.hi.is_sign_positive() && self.lo.is_sign_positive())''', ['C06'], desc='abs negates tiny positive values with negative lo'),
 m('eq_f64_ignores_lo', B, 'self.hi.eq(other) && self.lo == 0.0', 'self.hi.eq(other)', ['C06']),
 # ---- C07
 m('no_overlap_offsets_swapped', B, '''                1077
            } else {
                1076
            };''', '''                1076
            } else {
                1077
            };''', ['C07']),
 m('no_overlap_tie_odd_accepted', B, 'Some(Ordering::Equal) => (bits & 1) == 0,', 'Some(Ordering::Equal) => true,', ['C07', 'C20']),
 m('no_overlap_subnormal_true', B, 'FpCategory::Subnormal | FpCategory::Zero => b == 0.0,', 'FpCategory::Zero => b == 0.0,\n        FpCategory::Subnormal => true,', ['C07']),
 m('try_from_array_swapped_check', C, 'if no_overlap(value[0], value[1]) {', 'if no_overlap(value[0], value[1]) || no_overlap(value[1], value[0]) {', ['C07']),
 m('is_valid_ignores_lo_finite', B, 'self.hi.is_finite() && self.lo.is_finite() && no_overlap(self.hi, self.lo)', 'self.hi.is_finite() && (self.lo.is_finite() || self.lo.is_nan() == false && self.hi.abs() > 1e308) && no_overlap(self.hi, self.lo)', ['C07']),
 # ---- C08
 m('round_tie_uses_floor_for_positive', FR, '''                if self.is_sign_positive() {
                    fast_two_sum(self.hi, libm::ceil(self.lo))''', '''                if self.is_sign_positive() {
                    fast_two_sum(self.hi, libm::floor(self.lo))''', ['C08']),
 m('fract_true_false_arm', FR, '(true, false) => fast_two_sum(1.0, lo_fract),', '(true, false) => lo_fract.into(),', ['C08']),
 m('ceil_third_arm_floor', FR, '''            fast_two_sum(self.hi, libm::ceil(self.lo))
        } else {
            libm::ceil(self.hi).into()
        }''', '''            fast_two_sum(self.hi, libm::ceil(self.lo))
        } else {
            libm::floor(self.hi).into()
        }''', ['C08'], desc='killed by the existing tests as well, kept as a sanity mutant'),
 m('round_half_hi_ignores_lo_sign', FR, '''            if self.hi.is_sign_positive() == self.lo.is_sign_positive() {
                libm::round(self.hi).into()''', '''            if self.hi.is_sign_positive() == self.lo.is_sign_positive() || self.lo == 0.0 || true {
                libm::round(self.hi).into()''', ['C08']),
 # ---- C09
 m('revert_F8_numcast', NI, 'if libm::fabs(f) < INT_THRESHOLD {', 'if libm::fabs(f) <= INT_THRESHOLD {', ['C09']),
 m('upper_bound_lo_zero', C, '''                hi: $type::MAX as f64,
                lo: -1.0,''', '''                hi: $type::MAX as f64,
                lo: 0.0,''', ['C09']),
 m('small_int_try_from_rounds', C, '''            let truncated = value.trunc();
            if !(LOWER_BOUND..=UPPER_BOUND).contains(&truncated) {
                Err(Self::Error::ConversionError {})
            } else {
                Ok(truncated.hi() as $type)''', '''            let truncated = value.round();
            if !(LOWER_BOUND..=UPPER_BOUND).contains(&truncated) {
                Err(Self::Error::ConversionError {})
            } else {
                Ok(truncated.hi() as $type)''', ['C09']),
 m('to_u64_via_i64', NI, 'u64::try_from(self).ok()', 'i64::try_from(self).ok().map(|v| v as u64)', ['C09']),
 m('f32_from_uses_sum', C, 'from_conversion!(|value: TwoFloat| -> $type { value.hi as $type });', 'from_conversion!(|value: TwoFloat| -> $type { (value.hi + value.lo * 1e16) as $type });', ['C09']),
 # ---- C10
 m('ref_sub_forwarding_swapped', 'src/ops_util.rs', 'op_trait_impl!($trait, $name, $a, $slf, &$a $lt, $rhs, $rt, $ot, $($meta,)* { $slf.$name(&$rhs) });', 'op_trait_impl!($trait, $name, $a, $slf, &$a $lt, $rhs, $rt, $ot, $($meta,)* { let r = $slf.$name(&$rhs); r + 0.0 });', ['C10'], desc='&a op b form post-processed: differs in -0 results only'),
 m('inv_returns_self', NI, '''    fn Inv::inv(self: &TwoFloat) -> TwoFloat {
        TwoFloat::recip(*self)''', '''    fn Inv::inv(self: &TwoFloat) -> TwoFloat {
        *self''', ['C10']),
 m('pow_u16_through_i16', NI, '''    fn Pow::pow<'a, 'b>(self: &'a TwoFloat, rhs: &'b u16) -> TwoFloat {
        TwoFloat::powi(*self, *rhs as i32)''', '''    fn Pow::pow<'a, 'b>(self: &'a TwoFloat, rhs: &'b u16) -> TwoFloat {
        TwoFloat::powi(*self, *rhs as i16 as i32)''', ['C10']),
 m('mul_add_fused_differently', NI, '(self * a) + b', '(a * self) + b', ['C10'], desc='a*self vs self*a: the product is commutative bit-for-bit? expected survivor if so'),
 m('float_ln_1p_calls_ln', NI, '''    fn ln_1p(self) -> Self {
        TwoFloat::ln_1p(self)''', '''    fn ln_1p(self) -> Self {
        TwoFloat::ln(self + 1.0)''', ['C10']),
 m('remassign_tf_body_differs', A, '''    fn RemAssign::rem_assign<'b>(self: &mut TwoFloat, rhs: &'b f64) {
        let quotient = (*self / rhs).trunc();''', '''    fn RemAssign::rem_assign<'b>(self: &mut TwoFloat, rhs: &'b f64) {
        let quotient = (*self / rhs).floor();''', ['C10', 'C19']),
 # ---- C11
 m('nostd_fma_unfused', A, '''    libm::fma(x, y, z)''', '''    x * y + z''', ['C11']),
 m('nostd_fma_f32', A, '''    libm::fma(x, y, z)''', '''    if x.abs() < 1e-200 { libm::fmaf(x as f32, y as f32, z as f32) as f64 } else { libm::fma(x, y, z) }''', ['C11']),
 m('std_fma_unfused', A, '''    f64::mul_add(x, y, z)''', '''    x * y + z''', ['C11', 'C02', 'C04']),
 # ---- C12
 m('const_pi_lo_last_digit', CO, None, None, ['C12']),
 m('max_lo_one_ulp_down', B, '''        hi: f64::MAX,
        lo: hexf64!("0x1.fffffffffffffp+969"),''', '''        hi: f64::MAX,
        lo: hexf64!("0x1.ffffffffffffep+969"),''', ['C12']),
 m('rad_per_deg_lo_zero', B, 'lo: hexf64!("0x1.5c1d8becdd291p-62"),', 'lo: 0.0,', ['C12']),
 # ---- C13
 m('revert_F2_powi_abs', B, 'let mut n_pos = n.unsigned_abs();', 'let mut n_pos = n.abs();', ['C13']),
 m('revert_F3_cbrt_zero', PW, '''        if self.hi == 0.0 {
            return self;
        }
''', '', ['C13']),
 m('sqrt_without_correction', PW, 'Self::new_add(y, (self - Self::new_mul(y, y)).hi * (x * 0.5))', 'Self::new_add(y, (self - Self::new_mul(y, y)).hi * (x * 0.5) * 0.999999)', ['C13']),
 m('cbrt_one_newton_step', PW, '''        x -= (x2 * x - self) / (3.0 * x2);
        x2 = x * x;
        x - (x2 * x - self) / (3.0 * x2)''', '''        x -= (x2 * x - self) / (3.0 * x2);
        x''', ['C13']),
 m('powi_recip_before_loop', B, '''                let mut value = self;
                while n_pos > 0 {''', '''                let mut value = if n < 0 { self.recip() } else { self };
                let n = n.wrapping_abs();
                while n_pos > 0 {''', ['C13']),
 # ---- C14
 m('exp_taylor_truncated', EL, 'let expm1_y = y * polynomial!(y, 1.0, FRAC_FACT[2..15]);', 'let expm1_y = y * polynomial!(y, 1.0, FRAC_FACT[2..9]);', ['C14']),
 m('exp_upper_limit_700_finite', EL, 'const EXP_UPPER_LIMIT: f64 = 709.0;', 'const EXP_UPPER_LIMIT: f64 = 708.0;', ['C14'], desc='still returns inf above 708: within property (no claim in (700,710)); expected survivor'),
 m('exp_overflow_returns_max', EL, '''            Self {
                hi: f64::INFINITY,
                lo: 0.0,
            }''', '''            Self {
                hi: f64::MAX,
                lo: 0.0,
            }''', ['C14']),
 m('powf_parity_from_hi_only', PW, '''                    let low_trunc = if libm::trunc(y.lo) == 0.0 {
                        libm::trunc(y.hi)
                    } else {
                        libm::trunc(y.lo)
                    };''', '''                    let low_trunc = libm::trunc(y.hi);''', ['C14'], desc='parity carried by lo only for |y| >= 2^53: outside |y| <= 10, expected survivor of C14'),
 m('powf_sign_inverted', PW, '''                    if low_trunc % 2.0 == 0.0 {
                        abs_result
                    } else {
                        -abs_result
                    }''', '''                    if low_trunc % 2.0 != 0.0 && low_trunc > 4.0 {
                        abs_result
                    } else if low_trunc % 2.0 == 0.0 { abs_result } else {
                        -abs_result
                    }''', ['C14']),
 m('exp_m1_poly_truncated', EL, '''            let r = polynomial!(x, 1.0, FRAC_FACT[2..15]);
            if self < 0.0 {''', '''            let r = polynomial!(x, 1.0, FRAC_FACT[2..12]);
            if self < 0.0 {''', ['C14']),
 m('exp2_eight_squarings', EL, '''            r1 = r1 * r1; // 2^(r * 512)
''', '''            r1 = r1 * (r1 * 1.0000000000000000000000000000001); // 2^(r * 512)
''', ['C14'], desc='no-op factor (rounds to 1.0): expected survivor'),
 m('exp2_ln2_hi_only', EL, 'let r = (self - k) * LN_2 / 512.0;', 'let r = (self - k) * LN_2.hi() / 512.0;', ['C14']),
 # ---- C15
 m('revert_F4_log2_one', EL, '''        if self == 1.0 {
            Self::from(0.0)
        } else if self <= 0.0 {
            Self::NAN
        } else {
            let mut x = Self::from(libm::log2(self.hi));''', '''        if self == 1.0 {
            Self::from(1.0)
        } else if self <= 0.0 {
            Self::NAN
        } else {
            let mut x = Self::from(libm::log2(self.hi));''', ['C15']),
 m('revert_F9_ln_1p', EL, '''        } else if self.hi < -0.5 {
            (1.0 + self).ln()
''', '', ['C15']),
 m('revert_F11_ln_tiny', EL, '''        } else if self.hi < hexf64!("0x1p-1020") {
            // exp(-ln x) would overflow in the Newton steps: ln x = ln(2^128 x) - 128 ln 2
            (self * hexf64!("0x1p128")).ln() - 128.0 * LN_2
''', '', ['C15']),
 m('ln_two_newton_steps', EL, '''            x += self * (-x).exp() - 1.0;
            x += self * (-x).exp() - 1.0;
            x + self * (-x).exp() - 1.0''', '''            x += self * (-x).exp() - 1.0;
            x + self * (-x).exp() - 1.0''', ['C15']),
 m('ln_1p_one_step', EL, '''            x -= (e - self) / (e + 1.0);
            e = x.exp_m1();
            x - (e - self) / (e + 1.0)''', '''            x - (e - self) / (e + 1.0)''', ['C15']),
 m('log10_divides_by_ln2', EL, 'self.ln() / LN_10', 'self.ln() / LN_10 * (1.0 + 1e-25)', ['C15']),
 # ---- C16
 m('sin_coeff_lo_flipped', TR, None, None, ['C16']),
 m('quadrant3_sign', TR, '''            2 => -restricted_sin(x),
            _ => -restricted_cos(x),
        }
    }

    /// Computes the cosine''', '''            2 => -restricted_sin(x),
            _ => restricted_cos(x),
        }
    }

    /// Computes the cosine''', ['C16']),
 m('quadrant_uses_hi_of_pi2', TR, 'let remainder = value - quotient * FRAC_PI_2 - quotient * FRAC_PI_2_TAIL;', 'let remainder = value - quotient * FRAC_PI_2.hi();', ['C16']),
 m('revert_F12_tan_pole', TR, 'let remainder = value - quotient * FRAC_PI_2 - quotient * FRAC_PI_2_TAIL;', 'let remainder = value - quotient * FRAC_PI_2;', ['C16']),
 m('sin_cos_quadrant1_swapped_sign', TR, '1 => (c, -s),', '1 => (c, s),', ['C16']),
 # ---- C17
 m('atan_frac_1_2_lo_zero', TR, '''    hi: hexf64!("0x1.dac670561bb4fp-2"),
    lo: hexf64!("0x1.a2b7f222f65e2p-56"),''', '''    hi: hexf64!("0x1.dac670561bb4fp-2"),
    lo: 0.0,''', ['C17']),
 m('atan_breakpoint_moved', TR, '} else if k < 5.0 {', '} else if k < 4.0 {', ['C17'], desc='moves an interval boundary: accuracy of the neighbouring interval polynomial may still hold'),
 m('atan2_pi_sign_swapped', TR, '''            } else if self.hi.is_sign_positive() {
                a + PI
            } else {
                a - PI
            }''', '''            } else if self.hi.is_sign_positive() {
                a - PI
            } else {
                a + PI
            }''', ['C17']),
 m('acos_equals_asin', TR, '''        if x.is_valid() {
            FRAC_PI_2 - x''', '''        if x.is_valid() {
            FRAC_PI_2 - x * (1.0 + 1e-12)''', ['C17']),
 m('atan2_axis_neg_zero', TR, '''        if self.hi == 0.0 {
            if other.hi.is_sign_positive() {''', '''        if self.hi == 0.0 {
            if other.hi >= 0.0 {''', ['C17'], desc='atan2(0, -0.0) now 0 instead of pi'),
 # ---- C18
 m('revert_F5_asinh', HY, '''        if self.is_sign_negative() {
            return -(-self).asinh();
        }
''', '', ['C18']),
 m('sinh_plus', HY, 'self.exp() / 2.0 - (-self).exp() / 2.0', 'self.exp() / 2.0 - (-self).exp() / 2.0 * (1.0 + 1e-28)', ['C18']),
 m('atanh_without_half', HY, '((1.0 + self) / (1.0 - self)).ln() / 2.0', '((1.0 + self) / (1.0 - self)).ln() / 2.0000000000000004', ['C18']),
 m('acosh_plus_one', HY, '(self + (self * self - 1.0).sqrt()).ln()', '(self + (self * self - 1.0).sqrt()).abs().ln()', ['C18'], desc='abs() is a no-op in the domain; acosh(x<1) already NaN via sqrt: expected survivor'),
 m('acosh_domain_open', HY, '(self + (self * self - 1.0).sqrt()).ln()', '(self + (self * self - 1.0).abs().sqrt()).ln()', ['C18'], desc='was: acosh(x<1) becomes a valid number; since F13 (explicit `self < 1.0` test in front) an equivalent mutant: expected survivor'),
 # ---- C19
 m('rem_tt_uses_round', A, '''    fn Rem::rem<'a, 'b>(self: &'a TwoFloat, rhs: &'b TwoFloat) -> TwoFloat {
        let quotient = (self / rhs).trunc();''', '''    fn Rem::rem<'a, 'b>(self: &'a TwoFloat, rhs: &'b TwoFloat) -> TwoFloat {
        let quotient = (self / rhs).round();''', ['C19', 'C10']),
 m('div_euclid_sign_rule', A, '''            if rhs > 0.0 {
                quotient - 1.0
            } else {
                quotient + 1.0
            }''', '''            if rhs > 0.0 {
                quotient - 1.0
            } else {
                quotient - 1.0
            }''', ['C19']),
 m('rem_euclid_adds_rhs', A, 'remainder + rhs.abs()', 'remainder + rhs', ['C19']),
 m('rem_ft_uses_hi_quotient', A, '''    fn Rem::rem<'a, 'b>(self: &'a f64, rhs: &'b TwoFloat) -> TwoFloat {
        let quotient = (self / rhs).trunc();''', '''    fn Rem::rem<'a, 'b>(self: &'a f64, rhs: &'b TwoFloat) -> TwoFloat {
        let quotient = TwoFloat::from(libm::trunc(self / rhs.hi));''', ['C19']),
 # ---- C20
 m('display_sign_from_hi', FM, '''impl fmt::Display for TwoFloat {
    fn fmt(&self, f: &mut fmt::Formatter<'_>) -> fmt::Result {
        let sign_char = if self.lo().is_sign_positive() {''', '''impl fmt::Display for TwoFloat {
    fn fmt(&self, f: &mut fmt::Formatter<'_>) -> fmt::Result {
        let sign_char = if self.lo() >= 0.0 {''', ['C20'], desc='-0.0 low word printed with +'),
 m('lowerexp_fabs_dropped', FM, 'None => write!(f, "{:e} {} {:e}", self.hi, sign_char, libm::fabs(self.lo)),', 'None => write!(f, "{:e} {} {:e}", self.hi, sign_char, self.lo),', ['C20']),
 m('upperexp_prints_lower', FM, 'None => write!(f, "{:+E} {} {:E}", self.hi, sign_char, libm::fabs(self.lo)),', 'None => write!(f, "{:+E} {} {:e}", self.hi, sign_char, libm::fabs(self.lo)),', ['C20']),
 m('display_precision_off_by_one_for_lo', FM, '''                Some(p) => write!(
                    f,
                    "{:.*} {} {:.*}",
                    p,
                    self.hi,
                    sign_char,
                    p,
                    libm::fabs(self.lo)''', '''                Some(p) => write!(
                    f,
                    "{:.*} {} {:.*}",
                    p,
                    self.hi,
                    sign_char,
                    if p > 30 { p - 1 } else { p },
                    libm::fabs(self.lo)''', ['C20']),
 m('visit_map_skips_try_from', SE, '''                let lo = lo.ok_or_else(|| de::Error::missing_field("lo"))?;
                TwoFloat::try_from((hi, lo)).map_err(|_| {
                    de::Error::invalid_value(Unexpected::Float(lo), &"non-overlapping low word")
                })''', '''                let lo: f64 = lo.ok_or_else(|| de::Error::missing_field("lo"))?;
                let hi: f64 = hi;
                Ok(TwoFloat::from(hi) + lo)''', ['C20']),
 m('duplicate_lo_check_removed', SE, '''                            if lo.is_some() {
                                return Err(de::Error::duplicate_field("lo"));
                            }
''', '', ['C20']),
 m('visit_seq_swaps_words', SE, '''                let hi = seq
                    .next_element()?
                    .ok_or_else(|| de::Error::invalid_length(0, &self))?;
                let lo = seq
                    .next_element()?
                    .ok_or_else(|| de::Error::invalid_length(1, &self))?;''', '''                let lo = seq
                    .next_element()?
                    .ok_or_else(|| de::Error::invalid_length(0, &self))?;
                let hi = seq
                    .next_element()?
                    .ok_or_else(|| de::Error::invalid_length(1, &self))?;''', ['C20']),
 m('serialize_field_order', SE, '''        state.serialize_field("hi", &self.hi)?;
        state.serialize_field("lo", &self.lo)?;''', '''        state.serialize_field("lo", &self.lo)?;
        state.serialize_field("hi", &self.hi)?;''', ['C20']),
]

# mutants whose pattern must be looked up in the source (hex constants)
def _fill():
    import re
    co = open('/repo/' + CO).read()
    i = co.index('pub const PI: TwoFloat')
    mm = re.search(r'lo: hexf64!\("(-?0x1\.[0-9a-f]+)(p[-+]?\d+)"\)', co[i:])
    old = mm.group(0)
    digits = mm.group(1)
    last = digits[-1]
    newd = digits[:-1] + ('0' if last != '0' else '1')
    tr = open('/repo/' + TR).read()
    j = tr.index('const SIN_COEFFS')
    m2 = re.search(r'lo: hexf64!\("(-?0x1\.[0-9a-f]+)(p[-+]?\d+)"\)', tr[j:])
    for mu in MUTANTS:
        if mu['name'] == 'const_pi_lo_last_digit':
            # make the pattern unique by including the preceding hi line of PI
            k = co.index(old, i)
            start = co.rfind('\n', 0, co.rfind('\n', 0, k)) + 1
            ctxt = co[start:k + len(old)]
            mu['old'] = ctxt
            mu['new'] = ctxt.replace(digits, newd)
        if mu['name'] == 'sin_coeff_lo_flipped':
            o2 = m2.group(0)
            k = tr.index(o2, j)
            start = tr.rfind('\n', 0, tr.rfind('\n', 0, k)) + 1
            ctxt = tr[start:k + len(o2)]
            d2 = m2.group(1)
            mu['old'] = ctxt
            mu['new'] = ctxt.replace(d2, d2[:6] + ('7' if d2[6] != '7' else '3') + d2[7:])
_fill()
