#!/usr/bin/env python3
"""Sensitivity harness: applies each mutant (a textual edit of /repo's working tree), runs the named
quick checks, records whether they report a VIOLATION, and restores the tree.  Never commits to /repo.
usage: run_mutants.py [--only NAME_SUBSTR] [--suite]   (--suite also runs the repo's own tests on each mutant)"""
import json, subprocess, sys, time, os
sys.path.insert(0, os.path.dirname(__file__))
from mutants import MUTANTS
REPO = '/repo'
only = None
suite = '--suite' in sys.argv
if '--only' in sys.argv:
    only = sys.argv[sys.argv.index('--only') + 1]
res_path = '/verif/sens/results.json'
results = json.load(open(res_path)) if os.path.exists(res_path) else {}

def sh(cmd, cwd=None, timeout=3600):
    p = subprocess.run(cmd, shell=True, cwd=cwd, capture_output=True, text=True, timeout=timeout)
    return p.returncode, p.stdout + p.stderr

assert sh('git status --porcelain', REPO)[1].strip() == '', '/repo is not clean'
for m in MUTANTS:
    name = m['name']
    if only and only not in name:
        continue
    path = os.path.join(REPO, m['file'])
    src = open(path).read()
    cnt = src.count(m['old'])
    if cnt < 1:
        print(f'!! {name}: pattern not found'); results[name] = {'error': 'pattern not found'}; continue
    new = src.replace(m['old'], m['new'], 1 if not m.get('all') else -1)
    open(path, 'w').write(new)
    try:
        rc, out = sh('cargo build --offline 2>&1 | tail -3', REPO)
        if 'error' in out:
            print(f'!! {name}: does not compile'); results[name] = {'error': 'does not compile', 'out': out[-400:]}; continue
        entry = {'checks': {}, 'file': m['file'], 'desc': m.get('desc', '')}
        if suite:
            rc, out = sh('cargo test --workspace --no-fail-fast --offline 2>&1 | grep -E "^test result|FAILED" ', REPO)
            entry['suite_pass'] = ('FAILED' not in out and 'failed' not in out.replace('0 failed', ''))
        for pid in m['props']:
            t0 = time.time()
            rc, out = sh(f'./check {pid} quick', '/verif')
            viol = [l for l in out.splitlines() if l.startswith('VIOLATION')]
            detail = [l for l in out.splitlines() if 'violation in' in l]
            entry['checks'][pid] = {'rc': rc, 'violation': bool(viol), 'detail': (detail[0][:300] if detail else ''), 'wall': round(time.time() - t0, 1)}
            print(f"{'KILLED ' if rc == 1 else 'SURVIVED' if rc == 0 else 'INCONCL'} {name} [{pid}] rc={rc} {detail[0][:160] if detail else ''}")
        results[name] = entry
    finally:
        open(path, 'w').write(src)
        json.dump(results, open(res_path, 'w'), indent=1)
        sh('rm -rf /verif/replays/*/')
assert sh('git status --porcelain', REPO)[1].strip() == '', '/repo not restored'
rc, out = sh('cargo build --offline 2>&1 | tail -1', REPO)
