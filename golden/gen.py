#!/usr/bin/env python3-vt
"""Generates golden/vectors.txt: reference values from mpmath (independent of the
Rust oracle) used ONLY by the oracle self-test.  Not run at check time; the output
file is committed.  Usage: python3-vt gen.py > vectors.txt

Line format:  func nargs  hi1 lo1 [hi2 lo2 | n]  sign mant_hex exp
 * arguments are double-double values hi+lo given as f64 bit patterns (hex);
   an integer argument (powi) is given in decimal after the first pair
 * result = (-1)^sign * mant * 2^exp, rounded to 480 bits from a 1100-bit computation
"""
import random, struct, sys
from mpmath import mp, mpf, libmp

mp.prec = 1100
R = random.Random(20260926)

def f2b(x):
    return struct.unpack('<Q', struct.pack('<d', x))[0]

def b2f(b):
    return struct.unpack('<d', struct.pack('<Q', b))[0]

def ulp(x):
    x = abs(x)
    b = f2b(x)
    return b2f(b + 1) - x

def val(hi, lo):
    return mpf(hi) + mpf(lo)

def rnd_lo(hi, maxgap=250):
    """a low word that keeps (hi, lo) normalised; various gaps"""
    if hi == 0.0:
        return 0.0
    c = R.randrange(6)
    if c == 0:
        return 0.0
    h = ulp(hi) / 2
    gap = R.choice([1, 1, 2, 3, 10, 30, 53, 80, R.randrange(1, maxgap)])
    lo = h * R.random() * 2.0 ** (-gap)
    if R.random() < 0.5:
        lo = -lo
    if hi + lo != hi:
        return 0.0
    return lo

def dd(x, maxgap=250):
    """double-double near the python float x"""
    return (x, rnd_lo(x, maxgap))

def dd_of(m):
    """double-double rounding of an mpf"""
    hi = float(m)
    lo = float(m - mpf(hi))
    if hi + lo != hi:
        lo = 0.0
    return (hi, lo)

def emit(func, args, res, extra=None):
    res = mpf(res)
    s, man, exp, bc = res._mpf_
    if man == 0:
        sign, manh, e = 0, '0', 0
    else:
        # round to 480 bits
        r = libmp.normalize(s, man, exp, bc, 480, 'n')
        sign, man, e, _ = r
        manh = '%x' % man
    parts = [func, str(len(args) + (1 if extra is not None else 0))]
    for (hi, lo) in args:
        parts.append('%016x' % f2b(hi))
        parts.append('%016x' % f2b(lo))
    if extra is not None:
        parts.append(str(extra))
    parts += [str(sign), manh, str(e)]
    print(' '.join(parts))

def logu(lo_e, hi_e):
    """log-uniform positive float with exponent in [lo_e, hi_e)"""
    e = R.uniform(lo_e, hi_e)
    return 2.0 ** e * (1 + R.random() * 1e-3) if R.random() < 0.3 else 2.0 ** e

def sgn():
    return -1.0 if R.random() < 0.5 else 1.0

N = 300

def unary(func, f, points):
    for (hi, lo) in points:
        try:
            r = f(val(hi, lo))
        except Exception as ex:  # domain problems: skip
            sys.stderr.write('skip %s %r %r: %s\n' % (func, hi, lo, ex))
            continue
        emit(func, [(hi, lo)], r)

# ---- exp: whole range, near zero, large
pts = [dd(R.uniform(-745, 709)) for _ in range(N)]
pts += [dd(sgn() * logu(-300, 9)) for _ in range(N)]
pts += [(0.5, 0.0), (-0.5, 0.0), (1.0, 0.0), (709.0, 0.0), (-744.0, 0.0), (1e-300, 0.0)]
unary('exp', mp.exp, pts)
pts = [dd(sgn() * logu(-1000, 9)) for _ in range(2 * N)] + [dd(R.uniform(-1, 1)) for _ in range(N)]
pts += [dd(x) for x in (-0.6931471805599453, 0.4054651081081644, -0.7, 0.41, 0.5, -0.5, 0.25, -0.25)]
unary('expm1', mp.expm1, pts)

# ---- logs
pts = [dd(logu(-1000, 1000)) for _ in range(2 * N)]
pts += [dd(1.0 + sgn() * 2.0 ** (-R.randrange(1, 53))) for _ in range(N)]
pts += [(1.0, sgn() * 2.0 ** (-R.randrange(54, 300))) for _ in range(N // 2)]
pts += [dd(2.0 ** R.randrange(-1000, 1000)) for _ in range(N // 2)]
pts += [dd(x) for x in (1.4142135623730951, 0.7071067811865476, 1.4142135623730949, 0.7071067811865475, 2.0, 0.5, 10.0, 3.0)]
unary('ln', mp.log, pts)
unary('log2', lambda v: mp.log(v) / mp.log(2), pts)
unary('log10', lambda v: mp.log(v) / mp.log(10), pts)
pts = [dd(sgn() * logu(-1000, -1)) for _ in range(N)] + [dd(logu(-1, 900)) for _ in range(N)]
pts += [dd(-1.0 + 2.0 ** (-R.randrange(1, 53))) for _ in range(N // 2)]
pts += [(-1.0, 2.0 ** (-R.randrange(54, 300))) for _ in range(N // 2)]
pts += [dd(R.uniform(-0.99, 2.0)) for _ in range(N)]
unary('ln1p', lambda v: mp.log1p(v) if abs(v) < mpf(2) ** -10 else mp.log(1 + v), pts)

# ---- trig
def near_kpi4(kmax):
    k = R.randrange(-kmax, kmax + 1)
    m = mp.pi * k / 4
    hi, lo = dd_of(m)
    c = R.randrange(4)
    if c == 0:
        return (hi, lo)
    if c == 1:
        return (hi, 0.0)
    if c == 2:
        d = sgn() * ulp(hi) * R.randrange(1, 1000)
        return dd(hi + d)
    return dd(hi * (1 + sgn() * 2.0 ** (-R.randrange(10, 50))))
pts = [dd(R.uniform(-2.0 ** 20, 2.0 ** 20)) for _ in range(N)]
pts += [dd(R.uniform(-10, 10)) for _ in range(N)]
pts += [dd(sgn() * logu(-300, 1)) for _ in range(N)]
pts += [near_kpi4(2 ** 22) for _ in range(N)] + [near_kpi4(16) for _ in range(N)]
pts = [p for p in pts if p[0] != 0.0]
unary('sin', mp.sin, pts)
unary('cos', mp.cos, pts)
unary('tan', mp.tan, pts)

pts = [dd(R.uniform(-1, 1)) for _ in range(N)]
pts += [dd(sgn() * (1 - 2.0 ** (-R.randrange(1, 53)))) for _ in range(N)]
pts += [dd(sgn() * logu(-300, 0)) for _ in range(N)]
pts += [(1.0, -2.0 ** (-R.randrange(54, 300))) for _ in range(50)] + [(-1.0, 2.0 ** (-R.randrange(54, 300))) for _ in range(50)]
pts += [(1.0, 0.0), (-1.0, 0.0), (0.5, 0.0), (-0.5, 0.0)]
pts = [p for p in pts if abs(val(*p)) <= 1]
unary('asin', mp.asin, pts)
unary('acos', mp.acos, pts)
pts = [dd(sgn() * logu(-300, 62)) for _ in range(2 * N)] + [dd(R.uniform(-4, 4)) for _ in range(N)]
pts += [dd(sgn() * b * (1 + sgn() * 2.0 ** (-R.randrange(5, 52)))) for b in (7 / 16, 11 / 16, 19 / 16, 39 / 16, 1.0) for _ in range(20)]
unary('atan', mp.atan, pts)
for _ in range(3 * N):
    y = dd(sgn() * logu(-30, 30))
    x = dd(sgn() * logu(-30, 30))
    emit('atan2', [y, x], mp.atan2(val(*y), val(*x)))

# ---- hyperbolic
pts = [dd(sgn() * logu(-300, 9.2)) for _ in range(2 * N)] + [dd(R.uniform(-600, 600)) for _ in range(N)]
unary('sinh', mp.sinh, pts)
unary('cosh', mp.cosh, pts)
unary('tanh', mp.tanh, pts)
pts = [dd(sgn() * logu(-300, 61)) for _ in range(2 * N)] + [dd(R.uniform(-100, 100)) for _ in range(N)]
unary('asinh', mp.asinh, pts)
pts = [dd(1.0 + logu(-52, 60)) for _ in range(2 * N)] + [(1.0, 2.0 ** (-R.randrange(54, 300))) for _ in range(N // 2)]
pts += [dd(logu(0.001, 60)) for _ in range(N)]
pts = [p for p in pts if val(*p) >= 1]
unary('acosh', mp.acosh, pts)
pts = [dd(sgn() * logu(-300, 0)) for _ in range(2 * N)] + [dd(sgn() * (1 - 2.0 ** (-R.randrange(1, 53)))) for _ in range(N)]
pts += [(1.0, -2.0 ** (-R.randrange(54, 200))) for _ in range(50)]
pts = [p for p in pts if abs(val(*p)) < 1]
unary('atanh', mp.atanh, pts)

# ---- powers
for _ in range(2 * N):
    x = dd(logu(-30, 30))
    y = dd(R.uniform(-10, 10))
    emit('powf', [x, y], mp.power(val(*x), val(*y)))
for _ in range(2 * N):
    n = R.choice([2, 3, 5, 7, 10, 100, 1000, 12345, 2 ** 20 + 1, 2 ** 31 - 1, 2 ** 31, R.randrange(2, 2 ** 31)])
    L = R.uniform(-900, 900)
    x = dd(sgn() * 2.0 ** (L / n))
    emit('powi', [x], mp.power(val(*x), n), extra=n)

# ---- constants
for name, v in [('pi', mp.pi), ('e', mp.e), ('ln2', mp.log(2)), ('ln10', mp.log(10))]:
    emit('const_' + name, [], v)
