//! Exact dyadic rationals: value = (-1)^neg * mag * 2^exp with `mag` an
//! arbitrary-size natural number (little-endian u64 limbs, no leading zero limb).
//!
//! `add`, `sub`, `mul`, `cmp`, `floor`... are exact.  `div` and `sqrt` take an
//! explicit precision and truncate.  `to_f64_rn` is IEEE-754 binary64
//! round-to-nearest-even including gradual underflow and overflow to infinity.

use std::cmp::Ordering;

#[derive(Clone, Debug)]
pub struct Big {
    pub neg: bool,
    pub mag: Vec<u64>,
    pub exp: i64,
}

// ---------------------------------------------------------------- limb helpers

fn trim(v: &mut Vec<u64>) {
    while let Some(&0) = v.last() {
        v.pop();
    }
}

pub fn nat_bits(v: &[u64]) -> u64 {
    match v.last() {
        None => 0,
        Some(&t) => (v.len() as u64) * 64 - t.leading_zeros() as u64,
    }
}

fn nat_cmp(a: &[u64], b: &[u64]) -> Ordering {
    if a.len() != b.len() {
        return a.len().cmp(&b.len());
    }
    for i in (0..a.len()).rev() {
        if a[i] != b[i] {
            return a[i].cmp(&b[i]);
        }
    }
    Ordering::Equal
}

fn nat_add(a: &[u64], b: &[u64]) -> Vec<u64> {
    let (a, b) = if a.len() >= b.len() { (a, b) } else { (b, a) };
    let mut r = Vec::with_capacity(a.len() + 1);
    let mut carry = 0u64;
    for i in 0..a.len() {
        let bi = if i < b.len() { b[i] } else { 0 };
        let (s1, c1) = a[i].overflowing_add(bi);
        let (s2, c2) = s1.overflowing_add(carry);
        r.push(s2);
        carry = (c1 as u64) + (c2 as u64);
    }
    if carry != 0 {
        r.push(carry);
    }
    r
}

/// a - b, requires a >= b
fn nat_sub(a: &[u64], b: &[u64]) -> Vec<u64> {
    debug_assert!(nat_cmp(a, b) != Ordering::Less);
    let mut r = Vec::with_capacity(a.len());
    let mut borrow = 0u64;
    for i in 0..a.len() {
        let bi = if i < b.len() { b[i] } else { 0 };
        let (d1, b1) = a[i].overflowing_sub(bi);
        let (d2, b2) = d1.overflowing_sub(borrow);
        r.push(d2);
        borrow = (b1 as u64) + (b2 as u64);
    }
    assert_eq!(borrow, 0, "nat_sub underflow");
    trim(&mut r);
    r
}

fn nat_mul(a: &[u64], b: &[u64]) -> Vec<u64> {
    if a.is_empty() || b.is_empty() {
        return Vec::new();
    }
    let mut r = vec![0u64; a.len() + b.len()];
    for i in 0..a.len() {
        let mut carry = 0u128;
        let ai = a[i] as u128;
        if ai == 0 {
            continue;
        }
        for j in 0..b.len() {
            let t = ai * (b[j] as u128) + (r[i + j] as u128) + carry;
            r[i + j] = t as u64;
            carry = t >> 64;
        }
        let mut k = i + b.len();
        while carry != 0 {
            let t = (r[k] as u128) + carry;
            r[k] = t as u64;
            carry = t >> 64;
            k += 1;
        }
    }
    trim(&mut r);
    r
}

pub fn nat_shl(a: &[u64], k: u64) -> Vec<u64> {
    if a.is_empty() {
        return Vec::new();
    }
    let limbs = (k / 64) as usize;
    let bits = (k % 64) as u32;
    let mut r = vec![0u64; limbs];
    if bits == 0 {
        r.extend_from_slice(a);
    } else {
        let mut carry = 0u64;
        for &x in a {
            r.push((x << bits) | carry);
            carry = x >> (64 - bits);
        }
        if carry != 0 {
            r.push(carry);
        }
    }
    r
}

pub fn nat_shr(a: &[u64], k: u64) -> Vec<u64> {
    let limbs = (k / 64) as usize;
    let bits = (k % 64) as u32;
    if limbs >= a.len() {
        return Vec::new();
    }
    let mut r = Vec::with_capacity(a.len() - limbs);
    if bits == 0 {
        r.extend_from_slice(&a[limbs..]);
    } else {
        for i in limbs..a.len() {
            let lo = a[i] >> bits;
            let hi = if i + 1 < a.len() { a[i + 1] << (64 - bits) } else { 0 };
            r.push(lo | hi);
        }
    }
    trim(&mut r);
    r
}

/// true iff any of the low k bits of a is set
fn nat_low_nonzero(a: &[u64], k: u64) -> bool {
    let limbs = (k / 64) as usize;
    let bits = (k % 64) as u32;
    for i in 0..limbs.min(a.len()) {
        if a[i] != 0 {
            return true;
        }
    }
    if bits != 0 && limbs < a.len() {
        if a[limbs] & ((1u64 << bits) - 1) != 0 {
            return true;
        }
    }
    false
}

fn nat_bit(a: &[u64], k: u64) -> bool {
    let l = (k / 64) as usize;
    if l >= a.len() {
        false
    } else {
        (a[l] >> (k % 64)) & 1 == 1
    }
}

fn nat_trailing_zeros(a: &[u64]) -> u64 {
    let mut n = 0u64;
    for &x in a {
        if x == 0 {
            n += 64;
        } else {
            return n + x.trailing_zeros() as u64;
        }
    }
    n
}

fn nat_divrem_small(a: &[u64], d: u64) -> (Vec<u64>, u64) {
    assert!(d != 0);
    let mut q = vec![0u64; a.len()];
    let mut rem = 0u128;
    for i in (0..a.len()).rev() {
        let cur = (rem << 64) | a[i] as u128;
        q[i] = (cur / d as u128) as u64;
        rem = cur % d as u128;
    }
    trim(&mut q);
    (q, rem as u64)
}

/// Knuth algorithm D. Returns (quotient, remainder) of u / v, v != 0.
pub fn nat_divrem(u: &[u64], v: &[u64]) -> (Vec<u64>, Vec<u64>) {
    assert!(!v.is_empty(), "division by zero");
    if nat_cmp(u, v) == Ordering::Less {
        return (Vec::new(), u.to_vec());
    }
    if v.len() == 1 {
        let (q, r) = nat_divrem_small(u, v[0]);
        let mut rv = vec![r];
        trim(&mut rv);
        return (q, rv);
    }
    let n = v.len();
    let m = u.len() - n;
    let s = v[n - 1].leading_zeros() as u64;
    let vn = nat_shl(v, s);
    debug_assert_eq!(vn.len(), n);
    let mut un = nat_shl(u, s);
    un.resize(u.len() + 1, 0);
    let mut q = vec![0u64; m + 1];
    let b: u128 = 1u128 << 64;
    for j in (0..=m).rev() {
        let num = ((un[j + n] as u128) << 64) | un[j + n - 1] as u128;
        let mut qhat = num / vn[n - 1] as u128;
        let mut rhat = num % vn[n - 1] as u128;
        while qhat >= b || qhat * (vn[n - 2] as u128) > ((rhat << 64) | un[j + n - 2] as u128) {
            qhat -= 1;
            rhat += vn[n - 1] as u128;
            if rhat >= b {
                break;
            }
        }
        // multiply and subtract
        let mut borrow: i128 = 0;
        let mut carry: u128 = 0;
        for i in 0..n {
            let p = qhat * (vn[i] as u128) + carry;
            carry = p >> 64;
            let t = (un[i + j] as i128) - borrow - ((p as u64) as i128);
            un[i + j] = t as u64;
            borrow = if t < 0 { 1 } else { 0 };
        }
        let t = (un[j + n] as i128) - borrow - (carry as i128);
        un[j + n] = t as u64;
        if t < 0 {
            // add back
            qhat -= 1;
            let mut c = 0u128;
            for i in 0..n {
                let t2 = (un[i + j] as u128) + (vn[i] as u128) + c;
                un[i + j] = t2 as u64;
                c = t2 >> 64;
            }
            un[j + n] = un[j + n].wrapping_add(c as u64);
        }
        q[j] = qhat as u64;
    }
    trim(&mut q);
    un.truncate(n);
    trim(&mut un);
    let r = nat_shr(&un, s);
    (q, r)
}

/// floor(sqrt(n))
pub fn nat_isqrt(n: &[u64]) -> Vec<u64> {
    if n.is_empty() {
        return Vec::new();
    }
    let bits = nat_bits(n);
    // initial over-estimate: 2^ceil(bits/2)
    let mut x = nat_shl(&[1], (bits + 1) / 2);
    loop {
        // y = (x + n/x) / 2
        let (q, _) = nat_divrem(n, &x);
        let s = nat_add(&x, &q);
        let y = nat_shr(&s, 1);
        if nat_cmp(&y, &x) != Ordering::Less {
            return x;
        }
        x = y;
    }
}

// ---------------------------------------------------------------- Big

impl Big {
    pub fn zero() -> Big {
        Big { neg: false, mag: Vec::new(), exp: 0 }
    }
    pub fn one() -> Big {
        Big { neg: false, mag: vec![1], exp: 0 }
    }
    pub fn pow2(k: i64) -> Big {
        Big { neg: false, mag: vec![1], exp: k }
    }
    pub fn from_u64(x: u64) -> Big {
        let mut m = vec![x];
        trim(&mut m);
        Big { neg: false, mag: m, exp: 0 }
    }
    pub fn from_i64(x: i64) -> Big {
        let mut b = Big::from_u64(x.unsigned_abs());
        b.neg = x < 0 && !b.mag.is_empty();
        b
    }
    pub fn from_u128(x: u128) -> Big {
        let mut m = vec![x as u64, (x >> 64) as u64];
        trim(&mut m);
        Big { neg: false, mag: m, exp: 0 }
    }
    pub fn from_i128(x: i128) -> Big {
        let mut b = Big::from_u128(x.unsigned_abs());
        b.neg = x < 0;
        b
    }
    /// exact value of a finite f64 (panics on inf/NaN)
    pub fn from_f64(x: f64) -> Big {
        assert!(x.is_finite(), "Big::from_f64 of non-finite {:?}", x);
        let bits = x.to_bits();
        let neg = (bits >> 63) != 0;
        let e = ((bits >> 52) & 0x7ff) as i64;
        let m = bits & ((1u64 << 52) - 1);
        let (mag, exp) = if e == 0 { (m, -1074) } else { (m | (1u64 << 52), e - 1075) };
        if mag == 0 {
            return Big::zero();
        }
        let tz = mag.trailing_zeros();
        Big { neg, mag: vec![mag >> tz], exp: exp + tz as i64 }
    }
    /// exact hi + lo
    pub fn from_pair(hi: f64, lo: f64) -> Big {
        Big::from_f64(hi).add(&Big::from_f64(lo))
    }

    pub fn is_zero(&self) -> bool {
        self.mag.is_empty()
    }
    /// -1, 0, 1
    pub fn sign(&self) -> i32 {
        if self.mag.is_empty() {
            0
        } else if self.neg {
            -1
        } else {
            1
        }
    }
    pub fn bits(&self) -> u64 {
        nat_bits(&self.mag)
    }
    /// floor(log2 |x|); panics for zero
    pub fn msb_exp(&self) -> i64 {
        assert!(!self.is_zero());
        self.exp + self.bits() as i64 - 1
    }
    /// number of significant bits (between the highest and the lowest set bit)
    pub fn sig_bits(&self) -> u64 {
        if self.is_zero() {
            0
        } else {
            self.bits() - nat_trailing_zeros(&self.mag)
        }
    }
    pub fn neg(&self) -> Big {
        let mut r = self.clone();
        if !r.mag.is_empty() {
            r.neg = !r.neg;
        }
        r
    }
    pub fn abs(&self) -> Big {
        let mut r = self.clone();
        r.neg = false;
        r
    }
    pub fn mul_pow2(&self, k: i64) -> Big {
        let mut r = self.clone();
        if !r.mag.is_empty() {
            r.exp += k;
        }
        r
    }
    /// strip trailing zero limbs/bits (keeps value)
    pub fn normalize(mut self) -> Big {
        if self.mag.is_empty() {
            return Big::zero();
        }
        let tz = nat_trailing_zeros(&self.mag);
        if tz > 0 {
            self.mag = nat_shr(&self.mag, tz);
            self.exp += tz as i64;
        }
        self
    }

    fn aligned(a: &Big, b: &Big) -> (Vec<u64>, Vec<u64>, i64) {
        let e = a.exp.min(b.exp);
        let am = if a.exp > e { nat_shl(&a.mag, (a.exp - e) as u64) } else { a.mag.clone() };
        let bm = if b.exp > e { nat_shl(&b.mag, (b.exp - e) as u64) } else { b.mag.clone() };
        (am, bm, e)
    }

    pub fn cmp_abs(&self, o: &Big) -> Ordering {
        match (self.is_zero(), o.is_zero()) {
            (true, true) => return Ordering::Equal,
            (true, false) => return Ordering::Less,
            (false, true) => return Ordering::Greater,
            _ => {}
        }
        let (ea, eb) = (self.msb_exp(), o.msb_exp());
        if ea != eb {
            return ea.cmp(&eb);
        }
        let (am, bm, _) = Big::aligned(self, o);
        nat_cmp(&am, &bm)
    }

    pub fn add(&self, o: &Big) -> Big {
        if self.is_zero() {
            return o.clone();
        }
        if o.is_zero() {
            return self.clone();
        }
        let (am, bm, e) = Big::aligned(self, o);
        if self.neg == o.neg {
            Big { neg: self.neg, mag: nat_add(&am, &bm), exp: e }.normalize()
        } else {
            match nat_cmp(&am, &bm) {
                Ordering::Equal => Big::zero(),
                Ordering::Greater => Big { neg: self.neg, mag: nat_sub(&am, &bm), exp: e }.normalize(),
                Ordering::Less => Big { neg: o.neg, mag: nat_sub(&bm, &am), exp: e }.normalize(),
            }
        }
    }
    pub fn sub(&self, o: &Big) -> Big {
        self.add(&o.neg())
    }
    pub fn mul(&self, o: &Big) -> Big {
        if self.is_zero() || o.is_zero() {
            return Big::zero();
        }
        Big { neg: self.neg != o.neg, mag: nat_mul(&self.mag, &o.mag), exp: self.exp + o.exp }
    }
    pub fn mul_u64(&self, k: u64) -> Big {
        self.mul(&Big::from_u64(k))
    }
    pub fn sqr(&self) -> Big {
        self.mul(self)
    }

    /// Round to at most `p` significant bits, to nearest (ties to even).
    pub fn round_to(&self, p: u64) -> Big {
        let b = self.bits();
        if b <= p {
            return self.clone();
        }
        let sh = b - p;
        let mut q = nat_shr(&self.mag, sh);
        let half = nat_bit(&self.mag, sh - 1);
        let sticky = nat_low_nonzero(&self.mag, sh - 1);
        if half && (sticky || (q.first().map_or(0, |x| x & 1) == 1)) {
            q = nat_add(&q, &[1]);
        }
        Big { neg: self.neg, mag: q, exp: self.exp + sh as i64 }
    }
    /// Truncate (toward zero) to at most `p` significant bits.
    pub fn trunc_to(&self, p: u64) -> Big {
        let b = self.bits();
        if b <= p {
            return self.clone();
        }
        let sh = b - p;
        Big { neg: self.neg, mag: nat_shr(&self.mag, sh), exp: self.exp + sh as i64 }
    }

    /// Quotient self/o truncated toward zero to a value with at least `p`
    /// significant bits: |result - self/o| < 2^-(p-1) |self/o|.  Second value: exact?
    pub fn div(&self, o: &Big, p: u64) -> (Big, bool) {
        assert!(!o.is_zero(), "Big::div by zero");
        if self.is_zero() {
            return (Big::zero(), true);
        }
        let (ba, bb) = (self.bits() as i64, o.bits() as i64);
        let s = (p as i64 + bb - ba + 2).max(0) as u64;
        let num = nat_shl(&self.mag, s);
        let (q, r) = nat_divrem(&num, &o.mag);
        let exact = r.is_empty();
        (
            Big { neg: self.neg != o.neg, mag: q, exp: self.exp - s as i64 - o.exp },
            exact,
        )
    }

    /// exact floor(self / o) as an integer Big (o != 0) and the flag "division exact"
    pub fn div_floor(&self, o: &Big) -> (Big, bool) {
        assert!(!o.is_zero());
        if self.is_zero() {
            return (Big::zero(), true);
        }
        let e = self.exp - o.exp;
        let (num, den) = if e >= 0 {
            (nat_shl(&self.mag, e as u64), o.mag.clone())
        } else {
            (self.mag.clone(), nat_shl(&o.mag, (-e) as u64))
        };
        let (q, r) = nat_divrem(&num, &den);
        let exact = r.is_empty();
        let neg = self.neg != o.neg;
        let q = if neg && !exact { nat_add(&q, &[1]) } else { q };
        (Big { neg: neg && !q.is_empty(), mag: q, exp: 0 }.normalize(), exact)
    }

    /// sqrt truncated to at least `p` significant bits; second value: exact?
    pub fn sqrt(&self, p: u64) -> (Big, bool) {
        assert!(!self.neg, "Big::sqrt of negative");
        if self.is_zero() {
            return (Big::zero(), true);
        }
        let b = self.bits() as i64;
        let mut s = (2 * p as i64 + 2 - b).max(0);
        if (self.exp - s) % 2 != 0 {
            s += 1;
        }
        let n = nat_shl(&self.mag, s as u64);
        let r = nat_isqrt(&n);
        let exact = nat_cmp(&nat_mul(&r, &r), &n) == Ordering::Equal;
        (Big { neg: false, mag: r, exp: (self.exp - s) / 2 }, exact)
    }

    pub fn is_integer(&self) -> bool {
        if self.is_zero() || self.exp >= 0 {
            return true;
        }
        !nat_low_nonzero(&self.mag, (-self.exp) as u64)
    }
    fn int_frac(&self) -> (Vec<u64>, bool, bool, bool) {
        // (integer part of |x|, fraction nonzero, fraction >= 1/2, fraction == 1/2)
        if self.exp >= 0 {
            return (nat_shl(&self.mag, self.exp as u64), false, false, false);
        }
        let sh = (-self.exp) as u64;
        let ip = nat_shr(&self.mag, sh);
        let nz = nat_low_nonzero(&self.mag, sh);
        let half = nat_bit(&self.mag, sh - 1);
        let below = nat_low_nonzero(&self.mag, sh - 1);
        (ip, nz, half, half && !below)
    }
    fn from_int_mag(neg: bool, mag: Vec<u64>) -> Big {
        let mut m = mag;
        trim(&mut m);
        if m.is_empty() {
            Big::zero()
        } else {
            Big { neg, mag: m, exp: 0 }.normalize()
        }
    }
    pub fn trunc(&self) -> Big {
        let (ip, _, _, _) = self.int_frac();
        Big::from_int_mag(self.neg, ip)
    }
    pub fn floor(&self) -> Big {
        let (ip, nz, _, _) = self.int_frac();
        if self.neg && nz {
            Big::from_int_mag(true, nat_add(&ip, &[1]))
        } else {
            Big::from_int_mag(self.neg, ip)
        }
    }
    pub fn ceil(&self) -> Big {
        let (ip, nz, _, _) = self.int_frac();
        if !self.neg && nz {
            Big::from_int_mag(false, nat_add(&ip, &[1]))
        } else {
            Big::from_int_mag(self.neg, ip)
        }
    }
    /// nearest integer, halves away from zero
    pub fn round_half_away(&self) -> Big {
        let (ip, _, ge_half, _) = self.int_frac();
        if ge_half {
            Big::from_int_mag(self.neg, nat_add(&ip, &[1]))
        } else {
            Big::from_int_mag(self.neg, ip)
        }
    }
    /// nearest integer, halves to even
    pub fn round_half_even(&self) -> Big {
        let (ip, _, ge_half, is_half) = self.int_frac();
        let odd = ip.first().map_or(false, |x| x & 1 == 1);
        if ge_half && (!is_half || odd) {
            Big::from_int_mag(self.neg, nat_add(&ip, &[1]))
        } else {
            Big::from_int_mag(self.neg, ip)
        }
    }
    /// low bit of an integer value (panics if not an integer)
    pub fn is_odd_integer(&self) -> bool {
        assert!(self.is_integer());
        if self.is_zero() || self.exp > 0 {
            return false;
        }
        nat_bit(&self.mag, (-self.exp) as u64)
    }

    pub fn to_i128(&self) -> Option<i128> {
        if !self.is_integer() {
            return None;
        }
        if self.is_zero() {
            return Some(0);
        }
        if self.msb_exp() > 127 {
            return None;
        }
        let m = if self.exp >= 0 { nat_shl(&self.mag, self.exp as u64) } else { nat_shr(&self.mag, (-self.exp) as u64) };
        let lo = *m.first().unwrap_or(&0) as u128;
        let hi = *m.get(1).unwrap_or(&0) as u128;
        let v = (hi << 64) | lo;
        if self.neg {
            if v <= (1u128 << 127) {
                Some((v as i128).wrapping_neg())
            } else {
                None
            }
        } else if v < (1u128 << 127) {
            Some(v as i128)
        } else {
            None
        }
    }
    pub fn to_u128(&self) -> Option<u128> {
        if !self.is_integer() || self.neg {
            return None;
        }
        if self.is_zero() {
            return Some(0);
        }
        if self.msb_exp() > 127 {
            return None;
        }
        let m = if self.exp >= 0 { nat_shl(&self.mag, self.exp as u64) } else { nat_shr(&self.mag, (-self.exp) as u64) };
        let lo = *m.first().unwrap_or(&0) as u128;
        let hi = *m.get(1).unwrap_or(&0) as u128;
        Some((hi << 64) | lo)
    }

    /// IEEE-754 binary64 round-to-nearest-even of the exact value.
    pub fn to_f64_rn(&self) -> f64 {
        if self.is_zero() {
            return 0.0;
        }
        let e = self.msb_exp();
        let sgn = if self.neg { -1.0 } else { 1.0 };
        if e > 1023 {
            return sgn * f64::INFINITY;
        }
        if e < -1076 {
            return sgn * 0.0;
        }
        let lsb = if e >= -1022 { e - 52 } else { -1074 };
        let sh = lsb - self.exp;
        let q: u64 = if sh <= 0 {
            let m = nat_shl(&self.mag, (-sh) as u64);
            debug_assert!(m.len() <= 1);
            m.first().copied().unwrap_or(0)
        } else {
            let sh = sh as u64;
            let m = nat_shr(&self.mag, sh);
            debug_assert!(m.len() <= 1);
            let mut q = m.first().copied().unwrap_or(0);
            let half = nat_bit(&self.mag, sh - 1);
            let sticky = nat_low_nonzero(&self.mag, sh - 1);
            if half && (sticky || q & 1 == 1) {
                q += 1;
            }
            q
        };
        // q <= 2^53, lsb in [-1074, 971]: both factors exact, product exact or overflow
        sgn * (q as f64) * pow2_f64(lsb)
    }

    /// Nearest f64 to the value, for diagnostics only (no rounding guarantees beyond RN).
    pub fn approx(&self) -> f64 {
        self.to_f64_rn()
    }
    /// log2 |x| as f64 (diagnostics; -inf for zero)
    pub fn log2_abs(&self) -> f64 {
        if self.is_zero() {
            return f64::NEG_INFINITY;
        }
        let e = self.msb_exp();
        let m = self.abs().mul_pow2(-e).to_f64_rn();
        e as f64 + m.log2()
    }
}

/// exact 2^k as f64 for k in [-1074, 1023]
pub fn pow2_f64(k: i64) -> f64 {
    assert!((-1074..=1023).contains(&k));
    if k >= -1022 {
        f64::from_bits(((k + 1023) as u64) << 52)
    } else {
        f64::from_bits(1u64 << (k + 1074))
    }
}

impl PartialEq for Big {
    fn eq(&self, o: &Big) -> bool {
        self.cmp(o) == Ordering::Equal
    }
}
impl Eq for Big {}
impl PartialOrd for Big {
    fn partial_cmp(&self, o: &Big) -> Option<Ordering> {
        Some(self.cmp(o))
    }
}
impl Ord for Big {
    fn cmp(&self, o: &Big) -> Ordering {
        match (self.sign(), o.sign()) {
            (a, b) if a != b => a.cmp(&b),
            (0, _) => Ordering::Equal,
            (1, _) => self.cmp_abs(o),
            _ => o.cmp_abs(self),
        }
    }
}
