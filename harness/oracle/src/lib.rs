//! Reference arithmetic for the twofloat checks: exact dyadic rationals (`Big`)
//! and high-precision elementary functions (`Hp`).
pub mod big;
pub mod hp;
pub use big::Big;
pub use hp::Hp;
pub mod selftest;
