//! High-precision elementary functions on `Big`, every operation rounded to a
//! working precision `w` (bits).  Results carry a relative error far below
//! 2^-(w-60); the checks use w = 384 ("P320") and cross-check with w = 512.
//!
//! Inputs are exact `Big` values.  Where a function's accuracy near a zero of
//! the result matters (ln near 1, expm1/sinh/... near 0, acosh near 1) the
//! cancelling difference is formed exactly in `Big` before any rounding.

use crate::big::Big;
use std::cell::RefCell;
use std::collections::HashMap;

#[derive(Clone, Copy, Debug)]
pub struct Hp {
    pub w: u64,
}

thread_local! {
    static CONSTS: RefCell<HashMap<(u8, u64), Big>> = RefCell::new(HashMap::new());
}

fn cached(tag: u8, w: u64, f: impl FnOnce() -> Big) -> Big {
    if let Some(v) = CONSTS.with(|c| c.borrow().get(&(tag, w)).cloned()) {
        return v;
    }
    let v = f();
    CONSTS.with(|c| c.borrow_mut().insert((tag, w), v.clone()));
    v
}

impl Hp {
    pub fn new(w: u64) -> Hp {
        Hp { w }
    }
    fn up(&self, extra: u64) -> Hp {
        Hp { w: self.w + extra }
    }
    pub fn rnd(&self, x: Big) -> Big {
        x.round_to(self.w)
    }
    pub fn add(&self, a: &Big, b: &Big) -> Big {
        if a.is_zero() {
            return self.rnd(b.clone());
        }
        if b.is_zero() {
            return self.rnd(a.clone());
        }
        let (ea, eb) = (a.msb_exp(), b.msb_exp());
        if ea - eb > self.w as i64 + 8 {
            return self.rnd(a.clone());
        }
        if eb - ea > self.w as i64 + 8 {
            return self.rnd(b.clone());
        }
        self.rnd(a.add(b))
    }
    pub fn sub(&self, a: &Big, b: &Big) -> Big {
        self.add(a, &b.neg())
    }
    pub fn mul(&self, a: &Big, b: &Big) -> Big {
        self.rnd(a.round_to(self.w + 4).mul(&b.round_to(self.w + 4)))
    }
    pub fn div(&self, a: &Big, b: &Big) -> Big {
        let (q, _) = a.round_to(self.w + 8).div(&b.round_to(self.w + 8), self.w + 4);
        self.rnd(q)
    }
    pub fn sqrt(&self, a: &Big) -> Big {
        let (r, _) = a.round_to(2 * self.w + 16).sqrt(self.w + 4);
        self.rnd(r)
    }
    fn div_u64(&self, a: &Big, d: u64) -> Big {
        self.div(a, &Big::from_u64(d))
    }

    // ------------------------------------------------------------ constants

    /// atan(1/q) for a small integer q >= 2 by the Gregory series
    fn atan_inv(&self, q: u64) -> Big {
        let h = self.up(16);
        let qq = Big::from_u64(q * q);
        let mut pw = h.div(&Big::one(), &Big::from_u64(q)); // 1/q^(2n+1)
        let mut sum = pw.clone();
        let mut n = 1u64;
        loop {
            pw = h.div(&pw, &qq);
            if pw.is_zero() || pw.msb_exp() < -(h.w as i64) - 8 {
                break;
            }
            let t = h.div_u64(&pw, 2 * n + 1);
            sum = if n % 2 == 1 { h.sub(&sum, &t) } else { h.add(&sum, &t) };
            n += 1;
        }
        sum
    }
    pub fn pi(&self) -> Big {
        let w = self.w;
        cached(0, w, || {
            let h = Hp::new(w + 32);
            // Machin: pi = 16 atan(1/5) - 4 atan(1/239)
            let a = h.atan_inv(5).mul_pow2(4);
            let b = h.atan_inv(239).mul_pow2(2);
            h.sub(&a, &b).round_to(w + 8)
        })
    }
    pub fn ln2(&self) -> Big {
        let w = self.w;
        cached(1, w, || {
            let h = Hp::new(w + 32);
            // ln 2 = 2 atanh(1/3) = 2 sum 1/((2n+1) 3^(2n+1))
            let nine = Big::from_u64(9);
            let mut pw = h.div(&Big::one(), &Big::from_u64(3));
            let mut sum = pw.clone();
            let mut n = 1u64;
            loop {
                pw = h.div(&pw, &nine);
                if pw.msb_exp() < -(h.w as i64) - 8 {
                    break;
                }
                sum = h.add(&sum, &h.div_u64(&pw, 2 * n + 1));
                n += 1;
            }
            sum.mul_pow2(1).round_to(w + 8)
        })
    }
    pub fn ln10(&self) -> Big {
        let w = self.w;
        cached(2, w, || Hp::new(w + 16).ln(&Big::from_u64(10)).round_to(w + 8))
    }
    pub fn e(&self) -> Big {
        let w = self.w;
        cached(3, w, || Hp::new(w + 16).exp(&Big::one()).round_to(w + 8))
    }

    // ------------------------------------------------------------ exp / log

    /// e^x, |x| < 2^40
    pub fn exp(&self, x: &Big) -> Big {
        if x.is_zero() {
            return Big::one();
        }
        assert!(x.msb_exp() < 40, "hp::exp argument too large");
        let h = self.up(24);
        let xf = x.approx();
        let k = (xf / std::f64::consts::LN_2).round() as i64;
        let ln2 = Hp::new(self.w + 80).ln2();
        let r = if k == 0 {
            h.rnd(x.clone())
        } else {
            let kl = ln2.mul(&Big::from_i64(k));
            // exact subtraction of the rounded constant multiple, then round
            h.rnd(x.round_to(self.w + 120).sub(&kl))
        };
        let s = h.add(&Big::one(), &h.expm1_series(&r));
        self.rnd(s.mul_pow2(k))
    }
    /// 2^x = exp(x ln 2)
    pub fn exp2(&self, x: &Big) -> Big {
        let hh = Hp::new(self.w + 48);
        self.exp(&hh.rnd(x.round_to(hh.w + 8).mul(&hh.ln2())))
    }
    /// x + x^2/2! + ... (relative accuracy), |x| <= ~1
    fn expm1_series(&self, x: &Big) -> Big {
        if x.is_zero() {
            return Big::zero();
        }
        let mut term = self.rnd(x.clone());
        let mut sum = term.clone();
        let stop = sum.msb_exp() - self.w as i64 - 8;
        let mut n = 2u64;
        loop {
            term = self.div_u64(&self.mul(&term, x), n);
            if term.is_zero() || term.msb_exp() < stop {
                break;
            }
            sum = self.add(&sum, &term);
            n += 1;
            assert!(n < 2000);
        }
        sum
    }
    pub fn expm1(&self, x: &Big) -> Big {
        if x.is_zero() {
            return Big::zero();
        }
        if x.msb_exp() <= -2 {
            let h = self.up(16);
            self.rnd(h.expm1_series(&x.round_to(h.w + 16)))
        } else {
            let h = self.up(16);
            self.rnd(h.exp(x).sub(&Big::one()))
        }
    }
    /// natural log of an exact positive value
    pub fn ln(&self, y: &Big) -> Big {
        assert!(y.sign() > 0, "hp::ln of non-positive");
        let h = self.up(24);
        let mut k = y.msb_exp();
        let mut m = y.mul_pow2(-k); // [1,2)
        if m.approx() > std::f64::consts::SQRT_2 {
            m = m.mul_pow2(-1);
            k += 1;
        }
        let num = m.sub(&Big::one()); // exact
        let den = m.add(&Big::one()); // exact
        let mut res = Big::zero();
        if !num.is_zero() {
            let z = h.div(&num, &den);
            let z2 = h.mul(&z, &z);
            let mut pw = z.clone();
            let mut sum = z.clone();
            let stop = z.msb_exp() - h.w as i64 - 8;
            let mut n = 1u64;
            loop {
                pw = h.mul(&pw, &z2);
                if pw.is_zero() || pw.msb_exp() < stop {
                    break;
                }
                sum = h.add(&sum, &h.div_u64(&pw, 2 * n + 1));
                n += 1;
                assert!(n < 5000);
            }
            res = sum.mul_pow2(1);
        }
        if k != 0 {
            let ln2 = Hp::new(self.w + 64).ln2();
            res = h.add(&res, &ln2.mul(&Big::from_i64(k)));
        }
        self.rnd(res)
    }
    /// ln(1 + x) for exact x > -1
    pub fn ln_1p(&self, x: &Big) -> Big {
        if x.is_zero() {
            return Big::zero();
        }
        self.ln(&Big::one().add(x))
    }
    pub fn log2(&self, y: &Big) -> Big {
        let h = self.up(16);
        self.rnd(h.div(&h.ln(y), &h.ln2()))
    }
    pub fn log10(&self, y: &Big) -> Big {
        let h = self.up(16);
        self.rnd(h.div(&h.ln(y), &h.ln10()))
    }
    /// x^y for exact x > 0
    pub fn powf(&self, x: &Big, y: &Big) -> Big {
        let h = self.up(64);
        let l = h.ln(x);
        self.rnd(h.exp(&h.rnd(l.mul(y))))
    }
    /// x^n by binary powering (n >= 0), each product rounded to w bits
    pub fn pow_uint(&self, x: &Big, mut n: u64) -> Big {
        let mut result = Big::one();
        let mut base = self.rnd(x.clone());
        while n > 0 {
            if n & 1 == 1 {
                result = self.rnd(result.mul(&base));
            }
            n >>= 1;
            if n > 0 {
                base = self.rnd(base.sqr());
            }
        }
        result
    }

    // ------------------------------------------------------------ trig

    /// (sin x, cos x), |x| < 2^40
    pub fn sin_cos(&self, x: &Big) -> (Big, Big) {
        if x.is_zero() {
            return (Big::zero(), Big::one());
        }
        assert!(x.msb_exp() < 40);
        let h = self.up(24);
        let xf = x.approx();
        let n = (xf * std::f64::consts::FRAC_2_PI).round() as i64;
        let r = if n == 0 {
            x.round_to(h.w + 16)
        } else {
            let pi = Hp::new(self.w + 160).pi();
            let npi2 = pi.mul(&Big::from_i64(n)).mul_pow2(-1);
            x.round_to(self.w + 200).sub(&npi2).round_to(h.w + 16)
        };
        let (s, c) = h.sin_cos_series(&r);
        let (s, c) = match n.rem_euclid(4) {
            0 => (s, c),
            1 => (c, s.neg()),
            2 => (s.neg(), c.neg()),
            _ => (c.neg(), s),
        };
        (self.rnd(s), self.rnd(c))
    }
    fn sin_cos_series(&self, r: &Big) -> (Big, Big) {
        if r.is_zero() {
            return (Big::zero(), Big::one());
        }
        let r2 = self.mul(r, r);
        // sin
        let mut term = self.rnd(r.clone());
        let mut s = term.clone();
        let stop_s = s.msb_exp() - self.w as i64 - 8;
        let mut n = 1u64;
        loop {
            term = self.div_u64(&self.mul(&term, &r2), (2 * n) * (2 * n + 1));
            if term.is_zero() || term.msb_exp() < stop_s {
                break;
            }
            s = if n % 2 == 1 { self.sub(&s, &term) } else { self.add(&s, &term) };
            n += 1;
            assert!(n < 2000);
        }
        // cos
        let mut term = Big::one();
        let mut c = Big::one();
        let stop_c = -(self.w as i64) - 8;
        let mut n = 1u64;
        loop {
            term = self.div_u64(&self.mul(&term, &r2), (2 * n - 1) * (2 * n));
            if term.is_zero() || term.msb_exp() < stop_c {
                break;
            }
            c = if n % 2 == 1 { self.sub(&c, &term) } else { self.add(&c, &term) };
            n += 1;
            assert!(n < 2000);
        }
        (s, c)
    }
    pub fn sin(&self, x: &Big) -> Big {
        self.sin_cos(x).0
    }
    pub fn cos(&self, x: &Big) -> Big {
        self.sin_cos(x).1
    }
    pub fn tan(&self, x: &Big) -> Big {
        let h = self.up(16);
        let (s, c) = h.sin_cos(x);
        self.rnd(h.div(&s, &c))
    }

    fn atan_series(&self, x: &Big) -> Big {
        // |x| small (<= ~0.1)
        if x.is_zero() {
            return Big::zero();
        }
        let x2 = self.mul(x, x);
        let mut pw = self.rnd(x.clone());
        let mut sum = pw.clone();
        let stop = sum.msb_exp() - self.w as i64 - 8;
        let mut n = 1u64;
        loop {
            pw = self.mul(&pw, &x2);
            if pw.is_zero() || pw.msb_exp() < stop {
                break;
            }
            let t = self.div_u64(&pw, 2 * n + 1);
            sum = if n % 2 == 1 { self.sub(&sum, &t) } else { self.add(&sum, &t) };
            n += 1;
            assert!(n < 5000);
        }
        sum
    }
    pub fn atan(&self, x: &Big) -> Big {
        if x.is_zero() {
            return Big::zero();
        }
        let h = self.up(32);
        let neg = x.neg;
        let ax = x.abs();
        let one = Big::one();
        let res = if ax.cmp(&one) == std::cmp::Ordering::Greater {
            let inv = h.div(&one, &ax);
            let a = h.atan_unit(&inv);
            h.sub(&h.pi().mul_pow2(-1), &a)
        } else {
            h.atan_unit(&h.rnd(ax))
        };
        let res = self.rnd(res);
        if neg {
            res.neg()
        } else {
            res
        }
    }
    /// atan for 0 <= x <= 1
    fn atan_unit(&self, x: &Big) -> Big {
        if x.is_zero() {
            return Big::zero();
        }
        let mut t = x.clone();
        let mut halvings = 0;
        while t.msb_exp() >= -5 && halvings < 8 {
            // t <- t / (1 + sqrt(1 + t^2))
            let s = self.sqrt(&Big::one().add(&self.mul(&t, &t)));
            t = self.div(&t, &Big::one().add(&s));
            halvings += 1;
        }
        self.atan_series(&t).mul_pow2(halvings)
    }
    /// four-quadrant angle of the point (x, y): atan2(y, x), not both zero
    pub fn atan2(&self, y: &Big, x: &Big) -> Big {
        let h = self.up(32);
        let pi = h.pi();
        if x.is_zero() {
            assert!(!y.is_zero());
            let r = pi.mul_pow2(-1);
            return self.rnd(if y.neg { r.neg() } else { r });
        }
        if y.is_zero() {
            return if x.neg { self.rnd(pi) } else { Big::zero() };
        }
        // work with the smaller ratio to keep atan in [0, pi/4]
        let (ay, ax) = (y.abs(), x.abs());
        let base = if ay.cmp(&ax) != std::cmp::Ordering::Greater {
            h.atan(&h.div(&ay, &ax))
        } else {
            h.sub(&pi.mul_pow2(-1), &h.atan(&h.div(&ax, &ay)))
        };
        // base = angle in first quadrant for (|x|, |y|)
        let ang = match (x.neg, y.neg) {
            (false, false) => base,
            (false, true) => base.neg(),
            (true, false) => h.sub(&pi, &base),
            (true, true) => h.sub(&base, &pi),
        };
        self.rnd(ang)
    }
    /// asin for exact |x| <= 1
    pub fn asin(&self, x: &Big) -> Big {
        let one = Big::one();
        let a = one.sub(x); // exact
        let b = one.add(x); // exact
        assert!(a.sign() >= 0 && b.sign() >= 0, "asin domain");
        let h = self.up(32);
        let c = h.sqrt(&a.mul(&b));
        self.rnd(h.atan2(x, &c))
    }
    /// acos for exact |x| <= 1
    pub fn acos(&self, x: &Big) -> Big {
        let one = Big::one();
        let a = one.sub(x);
        let b = one.add(x);
        assert!(a.sign() >= 0 && b.sign() >= 0, "acos domain");
        let h = self.up(32);
        // acos x = 2 atan2(sqrt(1-x), sqrt(1+x))
        let r = h.atan2(&h.sqrt(&a), &h.sqrt(&b));
        self.rnd(r.mul_pow2(1))
    }

    // ------------------------------------------------------------ hyperbolic

    pub fn sinh(&self, x: &Big) -> Big {
        if x.is_zero() {
            return Big::zero();
        }
        let h = self.up(32);
        if x.msb_exp() >= 0 {
            let e = h.exp(x);
            let inv = h.div(&Big::one(), &e);
            return self.rnd(h.sub(&e, &inv).mul_pow2(-1));
        }
        // sinh = (em1 + em1/(em1+1)) / 2
        let e = h.expm1(x);
        let t = h.div(&e, &h.add(&e, &Big::one()));
        self.rnd(h.add(&e, &t).mul_pow2(-1))
    }
    pub fn cosh(&self, x: &Big) -> Big {
        let h = self.up(32);
        let e = h.exp(x);
        let inv = h.div(&Big::one(), &e);
        self.rnd(h.add(&e, &inv).mul_pow2(-1))
    }
    pub fn tanh(&self, x: &Big) -> Big {
        if x.is_zero() {
            return Big::zero();
        }
        let h = self.up(32);
        // tanh = em1(2x) / (em1(2x) + 2)
        let e = h.expm1(&x.mul_pow2(1));
        self.rnd(h.div(&e, &h.add(&e, &Big::from_u64(2))))
    }
    pub fn asinh(&self, x: &Big) -> Big {
        if x.is_zero() {
            return Big::zero();
        }
        let h = self.up(32);
        let ax = x.abs();
        let x2 = ax.sqr(); // exact
        let s = h.sqrt(&Big::one().add(&x2));
        let t = h.add(&h.rnd(ax.clone()), &h.div(&h.rnd(x2), &h.add(&Big::one(), &s)));
        let r = self.rnd(h.ln_1p(&t));
        if x.neg {
            r.neg()
        } else {
            r
        }
    }
    /// acosh for exact x >= 1
    pub fn acosh(&self, x: &Big) -> Big {
        let one = Big::one();
        let xm1 = x.sub(&one); // exact
        assert!(xm1.sign() >= 0, "acosh domain");
        if xm1.is_zero() {
            return Big::zero();
        }
        let h = self.up(32);
        let xp1 = x.add(&one);
        let s = h.sqrt(&xm1.mul(&xp1));
        let t = h.add(&h.rnd(xm1), &s);
        self.rnd(h.ln_1p(&t))
    }
    /// atanh for exact |x| < 1
    pub fn atanh(&self, x: &Big) -> Big {
        if x.is_zero() {
            return Big::zero();
        }
        let h = self.up(32);
        let ax = x.abs();
        let om = Big::one().sub(&ax); // exact
        assert!(om.sign() > 0, "atanh domain");
        let t = h.div(&ax.mul_pow2(1), &om);
        let r = self.rnd(h.ln_1p(&t).mul_pow2(-1));
        if x.neg {
            r.neg()
        } else {
            r
        }
    }
}
