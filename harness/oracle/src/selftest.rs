//! Self-tests of the oracle: (a) differential against the hardware's IEEE
//! arithmetic, (b) golden vectors produced by mpmath (golden/vectors.txt).

use crate::big::{nat_divrem, Big};
use crate::hp::Hp;

/// xorshift-style generator used ONLY inside this self-test (never in a property).
pub struct Sm(pub u64);
impl Sm {
    pub fn next(&mut self) -> u64 {
        self.0 = self.0.wrapping_add(0x9E3779B97F4A7C15);
        let mut z = self.0;
        z = (z ^ (z >> 30)).wrapping_mul(0xBF58476D1CE4E5B9);
        z = (z ^ (z >> 27)).wrapping_mul(0x94D049BB133111EB);
        z ^ (z >> 31)
    }
    fn f64_any(&mut self) -> f64 {
        // random finite f64 with stratified exponent
        loop {
            let r = self.next();
            let c = r % 8;
            let bits = match c {
                0 => self.next(),
                1 => (self.next() & 0x800f_ffff_ffff_ffff) | ((1023 + (self.next() % 120) as u64 - 60) << 52),
                2 => self.next() & 0x800f_ffff_ffff_ffff, // subnormal
                3 => (self.next() & 0x8000_0000_0000_0000) | ((self.next() % 2047) << 52), // power of two
                4 => (self.next() & 0xfff0_0000_0000_0000) | 0x000f_ffff_ffff_ffff,
                5 => (self.next() & 0xfff0_0000_0000_0001),
                _ => (self.next() & 0x800f_ffff_ffff_ffff) | ((self.next() % 2047) << 52),
            };
            let x = f64::from_bits(bits);
            if x.is_finite() {
                return x;
            }
        }
    }
}

fn same(a: f64, b: f64) -> bool {
    (a.is_nan() && b.is_nan()) || a == b
}

/// Big's IEEE rounding against the CPU for + - * / sqrt fma.  Returns the number of
/// comparisons made, or a description of the first mismatch.
pub fn hw_differential(seed: u64, n: usize) -> Result<u64, String> {
    let mut g = Sm(seed ^ 0x5eed);
    let mut cnt = 0u64;
    for i in 0..n {
        let a = g.f64_any();
        let mut b = g.f64_any();
        let mut c = g.f64_any();
        // make related operands often
        match i % 6 {
            0 => b = -a * (1.0 + f64::EPSILON * ((g.next() % 8) as f64)),
            1 => {
                if a.abs() > 1e-290 && a.abs() < 1e290 {
                    b = a * (2.0f64).powi(-(((g.next() % 110) as i32) - 2))
                }
            }
            2 => c = -(a * b),
            3 => {
                let p = a * b;
                if p.is_finite() {
                    c = -f64::from_bits(p.to_bits().wrapping_add(g.next() % 5).wrapping_sub(2));
                    if !c.is_finite() {
                        c = -p;
                    }
                }
            }
            _ => {}
        }
        if !b.is_finite() {
            b = g.f64_any();
        }
        if !c.is_finite() {
            c = g.f64_any();
        }
        let (ba, bb, bc) = (Big::from_f64(a), Big::from_f64(b), Big::from_f64(c));
        let chk = |name: &str, got: f64, want: f64| -> Result<(), String> {
            if same(got, want) {
                Ok(())
            } else {
                Err(format!("hw differential {name}: a={a:e} b={b:e} c={c:e} big={got:e} hw={want:e}"))
            }
        };
        chk("add", ba.add(&bb).to_f64_rn(), a + b)?;
        chk("sub", ba.sub(&bb).to_f64_rn(), a - b)?;
        chk("mul", ba.mul(&bb).to_f64_rn(), a * b)?;
        chk("fma", ba.mul(&bb).add(&bc).to_f64_rn(), a.mul_add(b, c))?;
        cnt += 4;
        if b != 0.0 {
            // division: 200-bit truncated quotient + sticky bit
            let (q, exact) = ba.div(&bb, 200);
            let q = if exact || q.is_zero() {
                q
            } else {
                // add a sticky bit far below
                let st = Big::pow2(q.exp - 2);
                if q.neg {
                    q.sub(&st)
                } else {
                    q.add(&st)
                }
            };
            if !(q.is_zero() && !exact) {
                chk("div", q.to_f64_rn(), a / b)?;
                cnt += 1;
            }
        }
        if a >= 0.0 {
            let (r, exact) = ba.sqrt(200);
            let r = if exact || r.is_zero() { r } else { r.add(&Big::pow2(r.exp - 2)) };
            chk("sqrt", r.to_f64_rn(), a.sqrt())?;
            cnt += 1;
        }
        // exact round trip and ordering
        if Big::from_f64(a).to_f64_rn().to_bits() != (if a == 0.0 { 0.0f64 } else { a }).to_bits() {
            return Err(format!("round trip {a:e}"));
        }
        if ba.partial_cmp(&bb) != a.partial_cmp(&b) {
            return Err(format!("ordering {a:e} {b:e}"));
        }
        cnt += 2;
    }
    // integer paths
    for _ in 0..n / 4 {
        let x = ((g.next() as u128) << 64 | g.next() as u128) >> (g.next() % 128);
        let y = (((g.next() as u128) << 64 | g.next() as u128) >> (g.next() % 128)).max(1);
        let bx = Big::from_u128(x);
        let by = Big::from_u128(y);
        if bx.to_u128() != Some(x) {
            return Err(format!("u128 round trip {x}"));
        }
        let (q, exact) = bx.div_floor(&by);
        if q.to_u128() != Some(x / y) || exact != (x % y == 0) {
            return Err(format!("div_floor {x} / {y}"));
        }
        let xi = x as i128;
        let yi = (y as i128) | 1;
        let yi = if g.next() % 2 == 0 { yi } else { -yi };
        let xi = if g.next() % 2 == 0 { xi } else { xi.wrapping_neg() };
        if xi != i128::MIN && yi != i128::MIN {
            let (q, _) = Big::from_i128(xi).div_floor(&Big::from_i128(yi));
            let d = xi / yi;
            let fl = if (xi % yi != 0) && ((xi < 0) != (yi < 0)) { d - 1 } else { d };
            if q.to_i128() != Some(fl) {
                return Err(format!("div_floor signed {xi} / {yi}"));
            }
        }
        // Knuth D on wide operands: q*v + r == u, r < v
        let u: Vec<u64> = (0..(2 + g.next() % 12)).map(|_| g.next()).collect();
        let mut v: Vec<u64> = (0..(1 + g.next() % 6)).map(|_| if g.next() % 5 == 0 { u64::MAX } else { g.next() }).collect();
        if *v.last().unwrap() == 0 {
            *v.last_mut().unwrap() = 1;
        }
        let (q, r) = nat_divrem(&u, &v);
        let bu = Big { neg: false, mag: { let mut t = u.clone(); while let Some(&0) = t.last() { t.pop(); } t }, exp: 0 };
        let bv = Big { neg: false, mag: v.clone(), exp: 0 };
        let bq = Big { neg: false, mag: q, exp: 0 };
        let br = Big { neg: false, mag: r, exp: 0 };
        if bq.mul(&bv).add(&br) != bu || br >= bv {
            return Err(format!("nat_divrem identity failed for {u:?} / {v:?}"));
        }
        cnt += 4;
    }
    Ok(cnt)
}

fn parse_big(sign: &str, mant: &str, exp: &str) -> Big {
    let mut mag: Vec<u64> = Vec::new();
    let bytes = mant.as_bytes();
    let mut end = bytes.len();
    while end > 0 {
        let start = end.saturating_sub(16);
        mag.push(u64::from_str_radix(&mant[start..end], 16).unwrap());
        end = start;
    }
    while let Some(&0) = mag.last() {
        mag.pop();
    }
    if mag.is_empty() {
        return Big::zero();
    }
    Big { neg: sign == "1", mag, exp: exp.parse().unwrap() }
}

fn arg(hi: &str, lo: &str) -> Big {
    let h = f64::from_bits(u64::from_str_radix(hi, 16).unwrap());
    let l = f64::from_bits(u64::from_str_radix(lo, 16).unwrap());
    Big::from_pair(h, l)
}

pub struct GoldenStats {
    pub vectors: u64,
    pub worst_log2_rel: f64,
    pub worst_line: String,
}

/// Compare `Hp` at working precision `w` with the mpmath vectors; every vector must
/// agree to relative 2^-tol_bits.
pub fn golden(text: &str, w: u64, tol_bits: i64) -> Result<GoldenStats, String> {
    let h = Hp::new(w);
    let mut st = GoldenStats { vectors: 0, worst_log2_rel: f64::NEG_INFINITY, worst_line: String::new() };
    for line in text.lines() {
        let t: Vec<&str> = line.split_whitespace().collect();
        if t.is_empty() {
            continue;
        }
        let func = t[0];
        let nargs: usize = t[1].parse().unwrap();
        let want = parse_big(t[t.len() - 3], t[t.len() - 2], t[t.len() - 1]);
        let got = if func == "powi" {
            let x = arg(t[2], t[3]);
            let n: u64 = t[4].parse().unwrap();
            Hp::new(w + 256).pow_uint(&x, n)
        } else if nargs == 0 {
            match func {
                "const_pi" => h.pi(),
                "const_e" => h.e(),
                "const_ln2" => h.ln2(),
                "const_ln10" => h.ln10(),
                _ => return Err(format!("unknown constant {func}")),
            }
        } else if nargs == 1 {
            let x = arg(t[2], t[3]);
            match func {
                "exp" => h.exp(&x),
                "expm1" => h.expm1(&x),
                "ln" => h.ln(&x),
                "log2" => h.log2(&x),
                "log10" => h.log10(&x),
                "ln1p" => h.ln_1p(&x),
                "sin" => h.sin(&x),
                "cos" => h.cos(&x),
                "tan" => h.tan(&x),
                "asin" => h.asin(&x),
                "acos" => h.acos(&x),
                "atan" => h.atan(&x),
                "sinh" => h.sinh(&x),
                "cosh" => h.cosh(&x),
                "tanh" => h.tanh(&x),
                "asinh" => h.asinh(&x),
                "acosh" => h.acosh(&x),
                "atanh" => h.atanh(&x),
                _ => return Err(format!("unknown function {func}")),
            }
        } else {
            let a = arg(t[2], t[3]);
            let b = arg(t[4], t[5]);
            match func {
                "atan2" => h.atan2(&a, &b),
                "powf" => h.powf(&a, &b),
                _ => return Err(format!("unknown function {func}")),
            }
        };
        st.vectors += 1;
        let diff = got.sub(&want).abs();
        if want.is_zero() {
            if !diff.is_zero() {
                return Err(format!("golden {line}: expected exact zero, got {:e}", got.approx()));
            }
            continue;
        }
        if diff.is_zero() {
            continue;
        }
        let rel = diff.msb_exp() + 1 - want.msb_exp();
        let l = diff.log2_abs() - want.log2_abs();
        if l > st.worst_log2_rel {
            st.worst_log2_rel = l;
            st.worst_line = line.chars().take(120).collect();
        }
        if rel > -tol_bits {
            return Err(format!(
                "golden mismatch (rel 2^{l:.1}, need 2^-{tol_bits}) func={func} line={line} got~{:e}",
                got.approx()
            ));
        }
    }
    Ok(st)
}
