use oracle::selftest;

#[test]
fn hw() {
    let n = selftest::hw_differential(1, 300_000).unwrap();
    assert!(n > 1_000_000);
}

#[test]
fn golden_384() {
    let text = std::fs::read_to_string(concat!(env!("CARGO_MANIFEST_DIR"), "/../../golden/vectors.txt")).unwrap();
    let st = selftest::golden(&text, 384, 300).unwrap();
    eprintln!("vectors {} worst 2^{:.1} at {}", st.vectors, st.worst_log2_rel, st.worst_line);
}
