//! C14 (exp, exp2, exp_m1, powf) and C15 (ln, log2, log10, log, ln_1p)

use crate::check;
use crate::common::*;
use crate::engine::{guard, Ctx, Kind, Property, SubCheck};
use crate::fcommon::*;
use crate::gen::*;
use crate::inh;
use oracle::big::pow2_f64;
use oracle::Big;
use twofloat::TwoFloat;

fn call(ctx: &mut Ctx, what: &str, x: Dd, f: fn(TwoFloat) -> TwoFloat) -> Option<Dd> {
    decoy_call(ctx, x, f);
    match guard(|| f(x.tf())) {
        Ok(t) => Some(Dd::of(t)),
        Err(m) => {
            ctx.fail(format!("{what}({}) panicked: {m}", x.show()));
            None
        }
    }
}

// ------------------------------------------------------------------ C14

fn c14_exp(ctx: &mut Ctx) {
    let c = if maybe_constant(ctx, 30, false).is_some() { 5 } else { ctx.weighted(&[6, 4, 3, 2, 1]) };
    let x = match c {
        5 => {
            let k = constant_operands();
            let d = k[ctx.below(19) as usize].1;
            let m = [1.0, -1.0, 2.0, -2.0, 64.0, 0.5][ctx.below(6) as usize];
            Dd::new(d.hi * m, d.lo * m)
        }
        0 => {
            // table stratification: x = y/2 + n/128 + delta
            ctx.label("arg:table-grid");
            let y = ctx.range(-1200, 1400) as f64;
            let n = ctx.range(-32, 32) as f64;
            let base = y / 2.0 + n / 128.0;
            let d = match ctx.below(4) {
                0 => 0.0,
                1 => pow2_f64(-ctx.range(8, 60)) * if ctx.flag() { -1.0 } else { 1.0 },
                2 => (ctx.bits(53) as f64 / 9007199254740992.0 - 0.5) / 128.0,
                _ => ulp(base.abs().max(1e-300)) * ctx.range(-2, 2) as f64,
            };
            let hi = base + d;
            let hi = if hi == 0.0 { 1.0 / 128.0 } else { hi };
            dd_at(ctx, hi)
        }
        1 => arg(ctx, &Strata { pivots: &[], emin: -60, emax: 9, umax: 700.0, positive_only: false }),
        2 => {
            ctx.label("arg:pivot");
            let p = [709.0, -709.0, 710.0, -750.0, 700.0, -600.0, 0.25, -0.25, 0.5, 16.0, -16.0, 1.0 / 256.0][ctx.below(12) as usize];
            let hi = pivot_near(ctx, p);
            dd_at(ctx, hi)
        }
        3 => arg(ctx, &Strata { pivots: &[], emin: -1000, emax: 12, umax: 2000.0, positive_only: false }),
        _ => {
            ctx.label("zero");
            Dd::new(if ctx.flag() { -0.0 } else { 0.0 }, 0.0)
        }
    };
    let x = if ctx.chance(1, 24) { if ctx.flag() { end_point(ctx, 700.0, -1) } else { end_point(ctx, -600.0, 1) } } else { x };
    check_exp(ctx, x);
}

/// every argument the range reduction treats as exact: x = k/128 with a zero low word
fn c14_exp_grid(ctx: &mut Ctx) {
    let i = ctx.word();
    let k = (i >> 1) as f64;
    let hi = if i & 1 == 1 { -k / 128.0 } else { k / 128.0 };
    ctx.label("arg:exact-grid");
    check_exp(ctx, Dd::new(hi, 0.0));
    ctx.set_nontrivial(true);
}

fn c14_exp2_grid(ctx: &mut Ctx) {
    force_grid(ctx, 64.0, false);
    c14_exp2(ctx);
    ctx.set_nontrivial(true);
}

fn c14_exp_m1_grid(ctx: &mut Ctx) {
    force_grid(ctx, 128.0, false);
    c14_exp_m1(ctx);
    ctx.set_nontrivial(true);
}

/// ln, log2, log10 at k/128 (0 < x <= 64), the integers up to 4096 and 10^k (k <= 22)
fn c15_logs_grid(ctx: &mut Ctx) {
    let i = ctx.word();
    let (which, j) = (i % 3, i / 3);
    let hi = if j < 8192 {
        (j + 1) as f64 / 128.0
    } else if j < 8192 + 4032 {
        (j - 8192 + 65) as f64
    } else {
        10f64.powi((j - 8192 - 4032) as i32 + 1)
    };
    ctx.label("arg:exact-grid");
    c15_logs_eval(ctx, which, Dd::new(hi, 0.0));
    ctx.set_nontrivial(true);
}

fn c15_ln_1p_grid(ctx: &mut Ctx) {
    let i = ctx.word();
    let hi = (i as f64 - 127.0) / 128.0;
    if hi == 0.0 {
        return;
    }
    ctx.forced = Some((hi, 0.0));
    c15_ln_1p(ctx);
    ctx.set_nontrivial(true);
}

fn check_exp(ctx: &mut Ctx, x: Dd) {
    x.key(ctx);
    note_dd(ctx, "x", x);
    let Some(r) = call(ctx, "exp", x, inh::exp) else { return };
    note_dd(ctx, "exp", r);
    crate::p_forms::routes_agree(ctx, "exp", x, r);
    let v = x.big();
    if v.is_zero() {
        check!(ctx, r.hi == 1.0 && r.lo == 0.0, "exp(0) = {}", r.show());
        ctx.set_nontrivial(true);
        return;
    }
    if v <= Big::from_i64(-750) {
        ctx.label("underflow-region");
        check!(ctx, both_zero(r), "exp({}) = {} should be exactly 0 for x <= -750", x.show(), r.show());
        ctx.set_nontrivial(true);
        return;
    }
    if v >= Big::from_i64(710) {
        ctx.label("overflow-region");
        check!(ctx, !r.hi.is_finite(), "exp({}) = {} should have a non-finite high word for x >= 710", x.show(), r.show());
        ctx.set_nontrivial(true);
        return;
    }
    if v < Big::from_i64(-600) || v > Big::from_i64(700) {
        // no accuracy claim here (C01 still requires a normalised or non-finite result)
        check!(ctx, normalised_or_nonfinite(r), "exp({}) = {} is neither normalised nor non-finite", x.show(), r.show());
        ctx.out_of_domain();
        return;
    }
    let want = reference(ctx, |h| h.exp(&v));
    bounded(ctx, "exp", r, &want, &p2(-100), &Big::zero());
    ctx.set_nontrivial(x.lo != 0.0);
}

fn c14_exp2(ctx: &mut Ctx) {
    let c = ctx.weighted(&[5, 5, 3, 1]);
    let x = match c {
        0 => {
            // k + r, r across (-1/2, 1/2)
            ctx.label("arg:k+r");
            let k = ctx.range(-900, 999) as f64;
            let r = match ctx.below(4) {
                0 => (ctx.bits(53) as f64 / 9007199254740992.0) - 0.5,
                1 => 0.5 * if ctx.flag() { -1.0 } else { 1.0 },
                2 => pow2_f64(-ctx.range(2, 60)) * if ctx.flag() { -1.0 } else { 1.0 },
                _ => 0.5 - pow2_f64(-ctx.range(2, 50)),
            };
            let hi = (k + r).clamp(-900.0, 1000.0);
            let hi = if hi == 0.0 { 0.5 } else { hi };
            dd_at(ctx, hi)
        }
        1 => arg(ctx, &Strata { pivots: &[], emin: -60, emax: 9, umax: 1000.0, positive_only: false }),
        2 => {
            ctx.label("arg:pivot");
            let p = [-1080.0, -1074.0, -1022.0, -1000.0, -900.0, 1000.0, 1023.0, 1024.0, -1021.5, 1022.5][ctx.below(10) as usize];
            let hi = pivot_near(ctx, p);
            dd_at(ctx, hi)
        }
        _ => arg(ctx, &Strata { pivots: &[], emin: -1000, emax: 12, umax: 3000.0, positive_only: false }),
    };
    let x = if ctx.chance(1, 24) { if ctx.flag() { end_point(ctx, 1000.0, -1) } else { end_point(ctx, -900.0, 1) } } else { x };
    let x = forced_or(ctx, x);
    x.key(ctx);
    note_dd(ctx, "x", x);
    let Some(r) = call(ctx, "exp2", x, inh::exp2) else { return };
    note_dd(ctx, "exp2", r);
    crate::p_forms::routes_agree(ctx, "exp2", x, r);
    let v = x.big();
    if v <= Big::from_i64(-1080) {
        ctx.label("underflow-region");
        check!(ctx, both_zero(r), "exp2({}) = {} should be exactly 0 for x <= -1080", x.show(), r.show());
        ctx.set_nontrivial(true);
        return;
    }
    if v >= Big::from_i64(1024) {
        ctx.label("overflow-region");
        check!(ctx, !r.hi.is_finite(), "exp2({}) = {} should have a non-finite high word for x >= 1024", x.show(), r.show());
        ctx.set_nontrivial(true);
        return;
    }
    if v < Big::from_i64(-900) || v > Big::from_i64(1000) {
        check!(ctx, normalised_or_nonfinite(r), "exp2({}) = {} is neither normalised nor non-finite", x.show(), r.show());
        ctx.out_of_domain();
        return;
    }
    let want = reference(ctx, |h| h.exp2(&v));
    bounded(ctx, "exp2", r, &want, &p2(-93), &Big::zero());
    ctx.set_nontrivial(x.lo != 0.0);
}

/// exp2(k) == 2^k exactly for every integer k in [-1022, 1022]
fn c14_exp2_int(ctx: &mut Ctx) {
    let k = ctx.word() as i64 - 1022;
    ctx.key_u64(k as u64);
    ctx.note("k", || k.to_string());
    let x = Dd::new(k as f64, 0.0);
    let Some(r) = call(ctx, "exp2", x, inh::exp2) else { return };
    check!(ctx, r.hi == pow2_f64(k) && r.lo == 0.0, "exp2({k}) = {} is not exactly 2^{k}", r.show());
    crate::p_forms::routes_agree(ctx, "exp2", x, r);
    ctx.set_nontrivial(true);
}

fn c14_exp_m1(ctx: &mut Ctx) {
    let c = ctx.weighted(&[5, 4, 4, 1]);
    let x = match c {
        0 => arg(ctx, &Strata { pivots: &[], emin: -1000, emax: -8, umax: 1.0, positive_only: false }),
        1 => {
            ctx.label("arg:pivot");
            let p = [-std::f64::consts::LN_2, 0.4054651081081644, -0.70, 0.41, 0.00390625, -0.00390625, 0.25, -0.25, 0.5, -0.5, 700.0, -40.0][ctx.below(12) as usize];
            let hi = pivot_near(ctx, p);
            dd_at(ctx, hi)
        }
        2 => arg(ctx, &Strata { pivots: &[], emin: -12, emax: 9, umax: 700.0, positive_only: false }),
        _ => {
            ctx.label("zero");
            Dd::new(if ctx.flag() { -0.0 } else { 0.0 }, 0.0)
        }
    };
    let x = if x.hi > 700.0 { Dd::new(x.hi / 2.0, 0.0) } else { x };
    let x = if ctx.chance(1, 32) { end_point(ctx, 700.0, -1) } else { x };
    let x = forced_or(ctx, x);
    x.key(ctx);
    note_dd(ctx, "x", x);
    let Some(r) = call(ctx, "exp_m1", x, inh::exp_m1) else { return };
    note_dd(ctx, "exp_m1", r);
    crate::p_forms::routes_agree(ctx, "exp_m1", x, r);
    let v = x.big();
    if v.is_zero() {
        check!(ctx, both_zero(r), "exp_m1(0) = {}", r.show());
        ctx.set_nontrivial(true);
        return;
    }
    if v > Big::from_i64(700) {
        ctx.out_of_domain();
        return;
    }
    let want = reference(ctx, |h| h.expm1(&v));
    let tight = v.abs() <= p2(-8) || v < Big::from_f64(-0.70) || v > Big::from_f64(0.41);
    if tight {
        ctx.label("band:2^-100");
    } else {
        ctx.label("band:2^-45");
    }
    bounded(ctx, "exp_m1", r, &want, &p2(if tight { -100 } else { -45 }), &Big::zero());
    ctx.set_nontrivial(x.lo != 0.0);
}

fn c14_powf(ctx: &mut Ctx) {
    let c = ctx.weighted(&[8, 3, 3, 2, 2]);
    // base
    let mut x = match ctx.weighted(&[5, 3, 3]) {
        0 => dd_closed(ctx, -30, 30, false),
        1 => {
            ctx.label("base:near-1");
            let hi = pivot_near(ctx, 1.0);
            dd_at(ctx, hi)
        }
        _ => dd_exp(ctx, -3, 3, false),
    };
    x = if x.hi < 0.0 { x.neg() } else { x };
    // exponent |y| <= 10
    let mut y = match ctx.weighted(&[5, 3, 2]) {
        0 => {
            let u = (ctx.bits(53) as f64 / 9007199254740992.0) * 10.0;
            let u = if u == 0.0 { 0.5 } else { u };
            let hi = if ctx.flag() { -u } else { u };
            dd_at(ctx, hi)
        }
        1 => dd_exp(ctx, -40, 3, false),
        _ => Dd::new(ctx.range(-10, 10) as f64, 0.0),
    };
    if y.big().abs() > Big::from_u64(10) {
        y = Dd::new(y.hi / 2.0, 0.0);
    }
    match c {
        0 => {}
        1 => {
            // negative base, integer exponent (parity carried by hi, or by lo for huge values)
            ctx.label("negative-base:integer-y");
            x = x.neg();
            y = match ctx.below(3) {
                0 => Dd::new(ctx.range(-10, 10) as f64, 0.0),
                1 => Dd::new(ctx.range(-10, 10) as f64, 0.0),
                _ => Dd::new(ctx.range(1, 9) as f64, 0.0),
            };
        }
        2 => {
            ctx.label("negative-base:fractional-y");
            x = x.neg();
            if y.hi.fract() == 0.0 && y.lo.fract() == 0.0 {
                y = Dd::new(y.hi + 0.5, 0.0);
            }
        }
        3 => {
            ctx.label("zero-exponent");
            y = Dd::new(if ctx.flag() { -0.0 } else { 0.0 }, 0.0);
            if ctx.flag() {
                x = x.neg();
            }
        }
        _ => {
            ctx.label("zero-base");
            x = Dd::new(if ctx.flag() { -0.0 } else { 0.0 }, 0.0);
            if ctx.chance(1, 4) {
                y = Dd::new(0.0, 0.0);
            } else if y.hi < 0.0 {
                y = y.neg();
            }
        }
    }
    if ctx.chance(1, 24) {
        x = if ctx.flag() { end_point(ctx, 1073741824.0, -1) } else { end_point(ctx, 9.313225746154785e-10, 1) };
    }
    if ctx.chance(1, 24) {
        y = end_point_sym(ctx, 10.0);
    }
    x.key(ctx);
    y.key(ctx);
    note_dd(ctx, "x", x);
    note_dd(ctx, "y", y);
    let r = match guard(|| inh::powf(x.tf(), y.tf())) {
        Ok(t) => Dd::of(t),
        Err(m) => {
            ctx.fail(format!("powf({}, {}) panicked: {m}", x.show(), y.show()));
            return;
        }
    };
    note_dd(ctx, "powf", r);
    {
        use num_traits::Pow;
        let (tx, ty) = (x.tf(), y.tf());
        let same = |a: Result<TwoFloat, String>| a.map(Dd::of).ok().map(|d| same_dd(d, r)) == Some(true);
        check!(ctx, same(guard(|| Pow::pow(tx, ty))), "Pow<TwoFloat>::pow({}, {}) differs from powf = {}", x.show(), y.show(), r.show());
        if y.lo == 0.0 {
            let f = y.hi;
            check!(ctx, same(guard(|| Pow::pow(tx, f))), "Pow<f64>::pow({}, {}) differs from powf = {}", x.show(), showf(f), r.show());
        }
    }
    let (vx, vy) = (x.big(), y.big());
    ctx.set_nontrivial(true);
    if vx.is_zero() && vy.is_zero() {
        check!(ctx, !r.valid(), "powf(0, 0) = {} should be invalid", r.show());
        return;
    }
    if vx.is_zero() {
        if vy.sign() > 0 {
            check!(ctx, both_zero(r), "powf(0, {}) = {} should be 0", y.show(), r.show());
        }
        return;
    }
    if vy.is_zero() {
        check!(ctx, r.hi == 1.0 && r.lo == 0.0, "powf({}, 0) = {} should be 1", x.show(), r.show());
        return;
    }
    let neg = vx.sign() < 0;
    if neg && !vy.is_integer() {
        check!(ctx, !r.valid(), "powf of negative {} with non-integer {} = {} should be invalid", x.show(), y.show(), r.show());
        return;
    }
    let ax = vx.abs();
    if ax < p2(-30) || ax > p2(30) || vy.abs() > Big::from_u64(10) {
        ctx.out_of_domain();
        return;
    }
    let lnx = reference(ctx, |h| h.ln(&ax));
    let mut want = reference(ctx, |h| h.powf(&ax, &vy));
    if neg && vy.is_odd_integer() {
        want = want.neg();
    }
    // 2^-100 (1 + |y ln x|)
    let factor = Big::one().add(&vy.mul(&lnx).abs().round_to(64));
    let rel = p2(-100).mul(&factor);
    if r.valid() {
        check!(ctx, r.big().sign() == want.sign(), "powf({}, {}) = {} has the wrong sign", x.show(), y.show(), r.show());
    }
    bounded(ctx, "powf", r, &want, &rel, &Big::zero());
    ctx.nontrivial = x.lo != 0.0 || y.lo != 0.0 || neg;
}


/// Negative bases with the exponents people write for roots and rational powers: p/q as the f64
/// quotient, as the double-double quotient (`TwoFloat::from(p) / q`), and their neighbours.
/// Such a y is not an integer, so the result must be invalid - whatever shortcut recognises "1/3".
fn c14_powf_fraction(ctx: &mut Ctx) {
    let p = ctx.range(1, 9);
    let q = ctx.range(2, 12);
    let p = if ctx.flag() { -p } else { p };
    let y = match ctx.below(4) {
        0 => Dd::new(p as f64 / q as f64, 0.0),
        1 | 2 => Dd::of(TwoFloat::from(p as f64) / TwoFloat::from(q as f64)),
        _ => {
            let d = Dd::of(TwoFloat::from(p as f64) / (q as f64));
            let s = Dd::new(d.hi, step(d.lo, ctx.range(-2, 2)));
            if s.valid() { s } else { d }
        }
    };
    let x = match ctx.below(4) {
        0 => Dd::new(-[8.0, 27.0, 2.0, 0.125, 64.0, 1000.0, 1.0, 4.0][ctx.below(8) as usize], 0.0),
        1 => Dd::new(-(ctx.range(1, 1000) as f64), 0.0),
        _ => {
            let d = dd_exp(ctx, -30, 30, false);
            if d.hi > 0.0 { d.neg() } else { d }
        }
    };
    x.key(ctx);
    y.key(ctx);
    note_dd(ctx, "x", x);
    note_dd(ctx, "y", y);
    let vy = y.big();
    let r = match guard(|| inh::powf(x.tf(), y.tf())) {
        Ok(t) => Dd::of(t),
        Err(m) => {
            ctx.fail(format!("powf({}, {}) panicked: {m}", x.show(), y.show()));
            return;
        }
    };
    if vy.is_integer() {
        // p/q happened to be whole (4/2 ...): the parity rule applies, checked elsewhere
        ctx.out_of_domain();
        return;
    }
    check!(ctx, !r.valid(), "powf of the negative {} with the non-integer exponent {} (~{}/{}) = {} should be invalid", x.show(), y.show(), p, q, r.show());
    crate::p_forms::routes_agree(ctx, "powf", x, r);
    ctx.set_nontrivial(true);
}

/// "For valid x no function of the family panics": ALL valid x (and y), far outside the ranges
/// of the accuracy claims.  Besides the absence of a panic only C01's shape rule is asserted.
fn c14_no_panic_total(ctx: &mut Ctx) {
    let which = ctx.below(5);
    let x = any_valid(ctx);
    let y = match ctx.below(4) {
        0 => any_valid(ctx),
        1 => Dd::new(ctx.range(-70, 70) as f64, 0.0),
        2 => Dd::new(ctx.range(-140, 140) as f64 / 2.0, 0.0),
        _ => dd_exp(ctx, -60, 70, true),
    };
    x.key(ctx);
    ctx.key_u64(which);
    note_dd(ctx, "x", x);
    let name = ["exp", "exp2", "exp_m1", "powf", "powf(-x)"][which as usize];
    ctx.note("function", || name.to_string());
    let (tx, ty) = (x.tf(), y.tf());
    if which >= 3 {
        y.key(ctx);
        note_dd(ctx, "y", y);
    }
    let r = guard(|| match which {
        0 => inh::exp(tx),
        1 => inh::exp2(tx),
        2 => inh::exp_m1(tx),
        3 => inh::powf(tx, ty),
        _ => inh::powf(-tx, ty),
    });
    match r {
        Err(m) => ctx.fail(format!("{name} of the valid {}{} panicked: {m}", x.show(), if which >= 3 { format!(" with exponent {}", y.show()) } else { String::new() })),
        Ok(t) => {
            let r = Dd::of(t);
            if in_c01_operand_domain(x) && (which < 3 || in_c01_operand_domain(y)) {
                check!(ctx, normalised_or_nonfinite(r), "{name}({}) = {} is neither normalised nor non-finite", x.show(), r.show());
            }
            // the clauses of C14 that are stated without a range hold for every valid x (and y)
            let v = x.big();
            match which {
                0 => {
                    if v <= Big::from_i64(-750) {
                        check!(ctx, both_zero(r), "exp({}) = {} should be exactly 0 for x <= -750", x.show(), r.show());
                    } else if v >= Big::from_i64(710) {
                        check!(ctx, !r.hi.is_finite(), "exp({}) = {} should have a non-finite high word for x >= 710", x.show(), r.show());
                    } else if v.is_zero() {
                        check!(ctx, r.hi == 1.0 && r.lo == 0.0, "exp(0) = {}", r.show());
                    }
                }
                1 => {
                    if v <= Big::from_i64(-1080) {
                        check!(ctx, both_zero(r), "exp2({}) = {} should be exactly 0 for x <= -1080", x.show(), r.show());
                    } else if v >= Big::from_i64(1024) {
                        check!(ctx, !r.hi.is_finite(), "exp2({}) = {} should have a non-finite high word for x >= 1024", x.show(), r.show());
                    }
                }
                2 => {
                    if v.is_zero() {
                        check!(ctx, both_zero(r), "exp_m1(0) = {}", r.show());
                    }
                }
                _ => {
                    let xv = if which == 3 { v } else { v.neg() };
                    let yv = y.big();
                    let xs = if which == 3 { x } else { x.neg() };
                    if xv.is_zero() && yv.is_zero() {
                        check!(ctx, !r.valid(), "powf(0, 0) = {} should be invalid", r.show());
                    } else if xv.is_zero() {
                        if yv.sign() > 0 {
                            check!(ctx, both_zero(r), "powf(0, {}) = {} should be 0", y.show(), r.show());
                        }
                    } else if yv.is_zero() {
                        check!(ctx, r.hi == 1.0 && r.lo == 0.0, "powf({}, 0) = {} should be 1", xs.show(), r.show());
                    } else if xv.sign() < 0 && !yv.is_integer() {
                        check!(ctx, !r.valid(), "powf of negative {} with non-integer {} = {} should be invalid", xs.show(), y.show(), r.show());
                    } else if xv.sign() < 0 && r.valid() && r.hi != 0.0 {
                        let want_neg = yv.is_odd_integer();
                        check!(ctx, (r.hi < 0.0) == want_neg, "powf({}, {}) = {} has the wrong sign for the parity of y", xs.show(), y.show(), r.show());
                    }
                }
            }
        }
    }
    ctx.set_nontrivial(x.hi.abs() > 700.0 || x.hi.abs() < 1e-290 || which >= 3);
}

/// sign rule of powf for negative bases beyond |y| <= 10: parity may live in either word of y
/// (e.g. y = 2^53 + 1); `Pow<f64>` / `Pow<TwoFloat>` must agree with powf bit for bit
fn c14_powf_sign(ctx: &mut Ctx) {
    use num_traits::Pow;
    // base: -1 exactly, -(1 +- tiny), -2, -0.5, or a generic negative value near 1
    let xb = match ctx.weighted(&[4, 3, 2, 2]) {
        0 => Dd::new(-1.0, 0.0),
        1 => {
            let hi = -step(1.0, ctx.range(-3, 3));
            dd_at(ctx, hi)
        }
        2 => Dd::new(if ctx.flag() { -2.0 } else { -0.5 }, 0.0),
        _ => {
            let d = dd_exp(ctx, -2, 2, false);
            if d.hi > 0.0 {
                d.neg()
            } else {
                d
            }
        }
    };
    // integer exponent: small, large below 2^53, or hi = m*2^k with the units digit in lo
    let y = match ctx.weighted(&[3, 3, 5, 3]) {
        0 => Dd::new(ctx.range(-40, 40) as f64, 0.0),
        3 => {
            // whole numbers at the limits of the integer types an implementation may cast to
            ctx.label("exponent:integer-type-limit");
            const K: [i64; 11] = [7, 8, 15, 16, 24, 31, 32, 52, 53, 63, 64];
            let k = K[ctx.below(11) as usize];
            let v = pow2_f64(k) + ctx.range(-2, 2) as f64;
            Dd::new(if ctx.flag() { -v } else { v }, 0.0)
        }
        1 => {
            let bits = ctx.range(1, 53) as u32;
            let v = (ctx.word() >> (64 - bits)) as f64;
            Dd::new(if ctx.flag() { -v } else { v }, 0.0)
        }
        _ => {
            ctx.label("parity-in-low-word");
            let k = ctx.range(53, 70);
            let m = (1 + ctx.below(8)) as f64;
            let hi = m * pow2_f64(k) * if ctx.flag() { -1.0 } else { 1.0 };
            let lo = ctx.range(-9, 9) as f64;
            let same_sign_one = 1.0f64.copysign(hi);
            if hi + lo == hi {
                Dd::new(hi, lo)
            } else if hi + same_sign_one == hi {
                Dd::new(hi, same_sign_one)
            } else {
                Dd::new(hi, 0.0)
            }
        }
    };
    xb.key(ctx);
    y.key(ctx);
    note_dd(ctx, "x", xb);
    note_dd(ctx, "y", y);
    let (tx, ty) = (xb.tf(), y.tf());
    let r = match guard(|| inh::powf(tx, ty)) {
        Ok(t) => Dd::of(t),
        Err(m) => {
            ctx.fail(format!("powf({}, {}) panicked: {m}", xb.show(), y.show()));
            return;
        }
    };
    note_dd(ctx, "powf", r);
    let vy = y.big();
    ctx.set_nontrivial(true);
    if vy.is_zero() {
        check!(ctx, r.hi == 1.0 && r.lo == 0.0, "powf({}, 0) = {}", xb.show(), r.show());
    } else {
        let odd = vy.is_odd_integer();
        // the sign of a non-zero, non-NaN result follows the parity of y
        if !r.hi.is_nan() && r.hi != 0.0 {
            check!(ctx, (r.hi < 0.0) == odd, "powf({}, {}) = {}: the sign must be {} because y is an {} integer", xb.show(), y.show(), r.show(), if odd { "negative" } else { "positive" }, if odd { "odd" } else { "even" });
        }
        if xb.hi == -1.0 && xb.lo == 0.0 {
            check!(ctx, r.hi == if odd { -1.0 } else { 1.0 } && r.lo == 0.0, "powf(-1, {}) = {} instead of exactly {}", y.show(), r.show(), if odd { -1 } else { 1 });
        }
    }
    // spellings
    let same = |a: Result<TwoFloat, String>| a.map(Dd::of).ok().map(|d| same_dd(d, r)) == Some(true);
    check!(ctx, same(guard(|| Pow::pow(tx, ty))) && same(guard(|| Pow::pow(&tx, &ty))), "Pow<TwoFloat>::pow({}, {}) differs from powf = {}", xb.show(), y.show(), r.show());
    if y.lo == 0.0 {
        let f = y.hi;
        check!(ctx, same(guard(|| Pow::pow(tx, f))) && same(guard(|| Pow::pow(&tx, &f))), "Pow<f64>::pow({}, {}) differs from powf = {}", xb.show(), showf(f), r.show());
    }
}

pub fn c14() -> Property {
    let g = |name, eval, quick, thorough| SubCheck { name, kind: Kind::Generated { words: 40, max_items: 0 }, eval, quick, thorough };
    Property {
        id: "C14",
        rule: "exp: x = y/2 + n/128 + delta over every table entry (y in -1200..1400, n in -32..32), uniform/log-uniform in [-700,700], pivots ±709, 710, -750, 700, -600 with ulp/2^-j offsets, zero; exp2: k + r with r across (-1/2,1/2] incl. ±1/2 and tiny, pivots -1080..1024, all 2045 integers k (complete); exp_m1: log-uniform 2^-1000..2^-8, both sides of -ln2, ln1.5, -0.70, 0.41, ±2^-8, up to 700; powf: x in [2^-30,2^30] dense near 1, |y| <= 10 (uniform, small, integers), negative x with integer / non-integer y, zero base / zero exponent. Reference: 384-bit Hp (1/64 of cases re-verified at 512 bits). non-trivial = non-zero low word, or a special point (zero, overflow/underflow region, sign rule); distinct = distinct argument bits Exact-grid sub-checks (complete enumerations): the generated sub-check evaluated at every argument of the form +-k/128 (or k/16, k/64, k/1024, integers, 10^k; see DESIGN 11.5) with a zero low word.",
        assumptions: vec!["reference functions: oracle::Hp at 384 bits, validated against mpmath vectors to 2^-300".into()],
        subchecks: vec![
            g("exp", c14_exp, 300_000, 8_000_000),
            g("exp2", c14_exp2, 300_000, 8_000_000),
            SubCheck { name: "exp2_integers", kind: Kind::Enumerated { n: 2045 }, eval: c14_exp2_int, quick: 0, thorough: 0 },
            g("no_panic_total", c14_no_panic_total, 400_000, 20_000_000),
            g("powf_negative_base_fraction", c14_powf_fraction, 100_000, 3_000_000),
            SubCheck { name: "exp_grid", kind: Kind::Enumerated { n: 2 * (128 * 712) }, eval: c14_exp_grid, quick: 0, thorough: 0 },
            SubCheck { name: "exp2_grid", kind: Kind::Enumerated { n: 2 * 64 * 1000 }, eval: c14_exp2_grid, quick: 0, thorough: 0 },
            SubCheck { name: "exp_m1_grid", kind: Kind::Enumerated { n: 2 * 128 * 64 }, eval: c14_exp_m1_grid, quick: 0, thorough: 0 },
            g("exp_m1", c14_exp_m1, 300_000, 8_000_000),
            g("powf", c14_powf, 200_000, 6_000_000),
            g("powf_sign_and_spellings", c14_powf_sign, 200_000, 6_000_000),
        ],
    }
}

// ------------------------------------------------------------------ C15

/// positive argument over [2^-1000, 2^960], dense around 1
/// x = f(g + delta) rounded to the nearest double-double, with the low word then nudged by a few
/// ulps: pre-images of the points where the forward function used inside the Newton iteration
/// switches (exp: multiples of 1/4 and 1/128, exp2: half-integers)
fn preimage(ctx: &mut Ctx, which: u32) -> Dd {
    ctx.label("arg:pre-image-of-inner-switch");
    let h = oracle::Hp::new(256);
    let quarter = |ctx: &mut Ctx, lo: i64, hi: i64| -> Big {
        let k = ctx.range(lo, hi);
        let base = match ctx.below(3) {
            0 => Big::from_i64(k).mul_pow2(-2),
            1 => Big::from_i64(k).mul_pow2(-7),
            // half-way between two nodes of the 1/128 grid, over the whole range of the argument
            _ => Big::from_i64((ctx.range(lo * 64, hi * 64)) | 1).mul_pow2(-8),
        };
        let d = match ctx.below(4) {
            0 => Big::zero(),
            1 => Big::pow2(-ctx.range(40, 110)),
            2 => Big::pow2(-ctx.range(40, 110)).neg(),
            _ => Big::pow2(-ctx.range(10, 40)).neg(),
        };
        base.add(&d)
    };
    let v = match which {
        0 => h.exp(&quarter(ctx, -2700, 2600)),                 // ln, log10: x = e^(k/4 + d)
        1 => h.exp2(&Big::from_i64(ctx.range(-1990, 1900)).mul_pow2(-1).add(&Big::pow2(-ctx.range(30, 100)).mul(&Big::from_i64(ctx.range(-1, 1))))), // log2: 2^(k/2 + d)
        _ => h.expm1(&quarter(ctx, -60, 2600)),                  // ln_1p: e^(k/4 + d) - 1
    };
    let d = crate::p_conv::dd_from_big(&v);
    let lo = step(d.lo, ctx.range(-3, 3));
    if lo.is_finite() && d.hi + lo == d.hi {
        Dd::new(d.hi, lo)
    } else {
        d
    }
}

fn log_arg(ctx: &mut Ctx) -> Dd {
    if let Some(c) = maybe_constant(ctx, 30, false) {
        if c.hi > 0.0 {
            return c;
        }
    }
    let c = ctx.weighted(&[5, 5, 2, 2, 2]);
    match c {
        4 => {
            let w = ctx.below(2) as u32;
            let d = preimage(ctx, w);
            if d.hi > 0.0 && d.hi >= pow2_f64(-1000) && d.hi <= pow2_f64(960) {
                d
            } else {
                Dd::new(2.718281828459045, 0.0)
            }
        }
        0 => {
            let d = dd_closed(ctx, -1000, 960, false);
            if d.hi < 0.0 {
                d.neg()
            } else {
                d
            }
        }
        1 => {
            // 1 +- 2^-j with every low-word class, or hi = 1 with the distance in lo alone
            ctx.label("arg:near-1");
            if ctx.chance(1, 4) {
                dd_at(ctx, 1.0)
            } else {
                let j = ctx.range(1, 52);
                let hi = if ctx.flag() { 1.0 + pow2_f64(-j) } else { 1.0 - pow2_f64(-j) };
                let hi = step(hi, ctx.range(-2, 2));
                dd_at(ctx, hi)
            }
        }
        2 => {
            ctx.label("arg:pow2");
            let k = ctx.range(-1000, 959);
            let hi = step(pow2_f64(k), ctx.range(-1, 1));
            dd_at(ctx, hi.max(pow2_f64(-1000)))
        }
        _ => {
            let d = dd_exp(ctx, -4, 4, false);
            if d.hi < 0.0 {
                d.neg()
            } else {
                d
            }
        }
    }
}

fn nonpositive_arg(ctx: &mut Ctx) -> Dd {
    if ctx.chance(1, 3) {
        Dd::new(if ctx.flag() { -0.0 } else { 0.0 }, 0.0)
    } else {
        let d = dd_exp(ctx, -1000, 959, false);
        if d.hi > 0.0 {
            d.neg()
        } else {
            d
        }
    }
}

fn c15_logs(ctx: &mut Ctx) {
    let which = ctx.below(3);
    let domain_err = ctx.chance(1, 25);
    let x = if domain_err { nonpositive_arg(ctx) } else { log_arg(ctx) };
    c15_logs_eval(ctx, which, x)
}

fn c15_logs_eval(ctx: &mut Ctx, which: u64, x: Dd) {
    let (name, f): (&str, fn(TwoFloat) -> TwoFloat) = [("ln", inh::ln as fn(TwoFloat) -> TwoFloat), ("log2", inh::log2), ("log10", inh::log10)][which as usize];
    x.key(ctx);
    ctx.key_u64(which);
    ctx.note("function", || name.to_string());
    note_dd(ctx, "x", x);
    let Some(r) = call(ctx, name, x, f) else { return };
    note_dd(ctx, "result", r);
    crate::p_forms::routes_agree(ctx, name, x, r);
    let v = x.big();
    if v.sign() <= 0 {
        ctx.label("domain-error");
        check!(ctx, !r.valid(), "{name} of the non-positive {} returned the valid {}", x.show(), r.show());
        ctx.set_nontrivial(true);
        return;
    }
    if v == Big::one() {
        check!(ctx, both_zero(r), "{name}(1) = {} instead of 0", r.show());
        ctx.set_nontrivial(true);
        return;
    }
    let want = reference(ctx, |h| match which {
        0 => h.ln(&v),
        1 => h.log2(&v),
        _ => h.log10(&v),
    });
    let (rel, abs) = match which {
        0 => (p2(-101), p2(-101)),
        1 => (p2(-101), p2(-92)),
        _ => (p2(-100), p2(-100)),
    };
    bounded(ctx, name, r, &want, &rel, &abs);
    if which == 2 {
        // log10(x) is bit-identical to x.ln() / LN_10
        let q = guard(|| inh::ln(x.tf()) / twofloat::consts::LN_10).map(Dd::of);
        check!(ctx, q.as_ref().ok().map(|d| same_dd(*d, r)) == Some(true), "log10({}) = {} differs from x.ln() / LN_10 = {:?}", x.show(), r.show(), q.map(|d| d.show()));
    }
    ctx.set_nontrivial(x.lo != 0.0);
}

/// log2(2^k) == k exactly for k in [-1000, 960]
fn c15_log2_pow2(ctx: &mut Ctx) {
    let k = ctx.word() as i64 - 1000;
    ctx.key_u64(k as u64);
    ctx.note("k", || k.to_string());
    let x = Dd::new(pow2_f64(k), 0.0);
    let Some(r) = call(ctx, "log2", x, inh::log2) else { return };
    check!(ctx, r.valid() && r.big() == Big::from_i64(k), "log2(2^{k}) = {} is not exactly {k}", r.show());
    crate::p_forms::routes_agree(ctx, "log2", x, r);
    ctx.set_nontrivial(true);
}

fn c15_log_base(ctx: &mut Ctx) {
    let x = log_arg(ctx);
    let b = log_arg(ctx);
    x.key(ctx);
    b.key(ctx);
    note_dd(ctx, "x", x);
    note_dd(ctx, "base", b);
    let r = guard(|| inh::log(x.tf(), b.tf())).map(Dd::of);
    let q = guard(|| inh::ln(x.tf()) / inh::ln(b.tf())).map(Dd::of);
    match (&r, &q) {
        (Ok(r), Ok(q)) => check!(ctx, same_dd(*r, *q), "log({}, {}) = {} differs from x.ln() / b.ln() = {}", x.show(), b.show(), r.show(), q.show()),
        (Err(m), _) => ctx.fail(format!("log panicked: {m}")),
        (_, Err(m)) => ctx.fail(format!("ln panicked: {m}")),
    }
    ctx.set_nontrivial(x.lo != 0.0 && b.lo != 0.0);
}

fn c15_ln_1p(ctx: &mut Ctx) {
    let c = ctx.weighted(&[4, 3, 3, 4, 2, 1, 1, 2]);
    let x = match c {
        7 => {
            let d = preimage(ctx, 2);
            if d.hi > -1.0 && d.hi <= pow2_f64(960) && d.hi != 0.0 {
                d
            } else {
                Dd::new(1.718281828459045, 0.0)
            }
        }
        0 => arg(ctx, &Strata { pivots: &[], emin: -1000, emax: -8, umax: 0.00390625, positive_only: false }),
        1 => {
            // [0.75, 2^960]
            let d = dd_exp(ctx, 0, 959, false);
            if d.hi < 0.0 {
                d.neg()
            } else {
                d
            }
        }
        2 => {
            // the loose middle band (-1, 0.75) \ [-2^-8, 2^-8]
            ctx.label("arg:middle-band");
            let u = ctx.bits(53) as f64 / 9007199254740992.0;
            let hi = -0.999 + u * 1.749;
            dd_at(ctx, if hi == 0.0 { 0.5 } else { hi })
        }
        3 => {
            // geometric approach to -1: 1 + x = 2^-j * m, and finally hi = -1 with lo > 0
            ctx.label("arg:approach -1");
            if ctx.chance(1, 3) {
                let hi = -1.0;
                let mut d = dd_at(ctx, hi);
                if d.lo <= 0.0 {
                    d = Dd::new(hi, d.lo.abs());
                    if !(d.lo > 0.0 && d.valid()) {
                        d = Dd::new(hi, pow2_f64(-60));
                    }
                }
                d
            } else {
                let j = ctx.range(1, 53);
                let hi = step(-1.0 + pow2_f64(-j), ctx.range(-1, 1)).max(-1.0 + pow2_f64(-53));
                dd_at(ctx, hi)
            }
        }
        4 => {
            ctx.label("arg:pivot");
            let p = [0.75, 0.00390625, -0.00390625, -0.5, 0.41, 1.0][ctx.below(6) as usize];
            let hi = pivot_near(ctx, p);
            dd_at(ctx, hi)
        }
        5 => {
            ctx.label("domain-error");
            if ctx.flag() {
                Dd::new(-1.0, 0.0)
            } else {
                let d = dd_exp(ctx, 0, 959, false);
                let d = if d.hi > 0.0 { d.neg() } else { d };
                if d.big() > Big::from_i64(-1) {
                    Dd::new(-1.0, -pow2_f64(-60))
                } else {
                    d
                }
            }
        }
        _ => {
            ctx.label("zero");
            Dd::new(if ctx.flag() { -0.0 } else { 0.0 }, 0.0)
        }
    };
    let x = forced_or(ctx, x);
    x.key(ctx);
    note_dd(ctx, "x", x);
    let Some(r) = call(ctx, "ln_1p", x, inh::ln_1p) else { return };
    note_dd(ctx, "ln_1p", r);
    crate::p_forms::routes_agree(ctx, "ln_1p", x, r);
    let v = x.big();
    if v.is_zero() {
        check!(ctx, both_zero(r), "ln_1p(0) = {}", r.show());
        ctx.set_nontrivial(true);
        return;
    }
    if v <= Big::from_i64(-1) {
        check!(ctx, !r.valid(), "ln_1p of {} (<= -1) returned the valid {}", x.show(), r.show());
        ctx.set_nontrivial(true);
        return;
    }
    if v.abs() < p2(-1000) || v > p2(960) {
        ctx.out_of_domain();
        return;
    }
    let want = reference(ctx, |h| h.ln_1p(&v));
    let tight = v.abs() <= p2(-8) || v >= Big::from_f64(0.75);
    if tight {
        ctx.label("band:2^-100");
    } else {
        ctx.label("band:2^-45");
    }
    bounded(ctx, "ln_1p", r, &want, &p2(if tight { -100 } else { -45 }), &Big::zero());
    ctx.set_nontrivial(x.lo != 0.0);
}

pub fn c15() -> Property {
    let g = |name, eval, quick, thorough| SubCheck { name, kind: Kind::Generated { words: 40, max_items: 0 }, eval, quick, thorough };
    Property {
        id: "C15",
        rule: "positive valid x log-uniform over [2^-1000,2^960], dense around 1 (1 ± 2^-j ± ulps with every low-word class, and hi = 1 with the distance in lo alone), powers of two ± 1 ulp, all 1961 exact powers of two (complete) for log2; non-positive arguments; ln_1p: |x| <= 2^-8 log-uniform to 2^-1000, [0.75, 2^960], the middle band, a geometric approach to -1 (1 + x = 2^-j m, then hi = -1 with a positive low word), pivots 0.75/±2^-8/-0.5/0.41, x <= -1. Reference: 384-bit Hp forming 1 + x / x - 1 exactly. non-trivial = non-zero low word or a special point; distinct = distinct argument bits Exact-grid sub-checks (complete enumerations): the generated sub-check evaluated at every argument of the form +-k/128 (or k/16, k/64, k/1024, integers, 10^k; see DESIGN 11.5) with a zero low word.",
        assumptions: vec!["reference functions: oracle::Hp at 384 bits, validated against mpmath vectors to 2^-300".into()],
        subchecks: vec![
            g("ln_log2_log10", c15_logs, 450_000, 12_000_000),
            SubCheck { name: "log2_pow2", kind: Kind::Enumerated { n: 1961 }, eval: c15_log2_pow2, quick: 0, thorough: 0 },
            SubCheck { name: "logs_grid", kind: Kind::Enumerated { n: 3 * (8192 + 4032 + 22) }, eval: c15_logs_grid, quick: 0, thorough: 0 },
            SubCheck { name: "ln_1p_grid", kind: Kind::Enumerated { n: 128 * 64 + 128 }, eval: c15_ln_1p_grid, quick: 0, thorough: 0 },
            g("log_base", c15_log_base, 100_000, 3_000_000),
            g("ln_1p", c15_ln_1p, 300_000, 8_000_000),
        ],
    }
}
