//! Entry point for the libFuzzer targets (fuzz/fuzz_targets/*.rs): bytes are cut into the same
//! u64 choice words the proptest runner produces, and the same evaluator decides.  A semantic
//! violation writes a replay file, prints the VIOLATION line and aborts (so libFuzzer saves the
//! input); known findings are tolerated exactly as in the proptest runner.

use crate::engine::{describe, eval_case, install_panic_hook, words_json, CaseWords, Kind, Verdict, ITEM_W};
use std::sync::Once;

static INIT: Once = Once::new();

pub fn bytes_to_case(kind: Kind, data: &[u8]) -> CaseWords {
    let mut u = arbitrary_words(data);
    match kind {
        Kind::Generated { words, max_items } => {
            let mut head = Vec::with_capacity(words);
            for _ in 0..words {
                head.push(u.next().unwrap_or(0));
            }
            let mut items = Vec::new();
            while items.len() < max_items {
                let Some(w0) = u.next() else { break };
                let mut it = [0u64; ITEM_W];
                it[0] = w0;
                for k in 1..ITEM_W {
                    it[k] = u.next().unwrap_or(0);
                }
                items.push(it);
            }
            CaseWords { head, items }
        }
        Kind::Enumerated { n } => CaseWords { head: vec![u.next().unwrap_or(0) % n.max(1)], items: vec![] },
    }
}

fn arbitrary_words(data: &[u8]) -> impl Iterator<Item = u64> + '_ {
    data.chunks(8).map(|c| {
        let mut b = [0u8; 8];
        b[..c.len()].copy_from_slice(c);
        u64::from_le_bytes(b)
    })
}

/// One target for a whole property: the first byte selects one of the property's generated
/// sub-checks (monotone map), the remaining bytes are its choice words.
pub fn run_any(prop_id: &str, data: &[u8]) {
    INIT.call_once(install_panic_hook);
    static CACHE: std::sync::OnceLock<(Vec<crate::engine::SubCheck>, Vec<String>)> = std::sync::OnceLock::new();
    let (scs, known) = CACHE.get_or_init(|| {
        let props = crate::all_properties();
        let prop = props.iter().find(|p| p.id == prop_id).expect("unknown property");
        // sub-checks whose single case is long (thousands of summands, quick budget below 10^4
        // cases) would take most of a campaign's time at a few hundred executions per second
        let scs: Vec<_> = prop.subchecks.iter().filter(|s| matches!(s.kind, Kind::Generated { .. }) && s.quick >= 10_000).copied().collect();
        (scs, crate::known_signatures(prop_id))
    });
    if data.is_empty() || scs.is_empty() {
        return;
    }
    let k = (data[0] as usize * scs.len()) >> 8;
    run_one(prop_id, &scs[k], known, &data[1..]);
}

pub fn run(prop_id: &str, subcheck: &str, data: &[u8]) {
    INIT.call_once(install_panic_hook);
    // the sub-check and the known-findings list are looked up once per process
    static CACHE: std::sync::OnceLock<(crate::engine::SubCheck, Vec<String>)> = std::sync::OnceLock::new();
    let (sc, known) = CACHE.get_or_init(|| {
        let props = crate::all_properties();
        let prop = props.iter().find(|p| p.id == prop_id).expect("unknown property");
        let sc = *prop.subchecks.iter().find(|s| s.name == subcheck).expect("unknown sub-check");
        (sc, crate::known_signatures(prop_id))
    });
    run_one(prop_id, sc, known, data);
}

fn run_one(prop_id: &str, sc: &crate::engine::SubCheck, known: &[String], data: &[u8]) {
    let subcheck = sc.name;
    let cw = bytes_to_case(sc.kind, data);
    let r = eval_case(sc, &cw, known, false, false);
    if let Verdict::Violation(msg) = r.verdict {
        let dir = format!("{}/replays/{}", crate::verif_dir(), prop_id);
        let _ = std::fs::create_dir_all(&dir);
        let mut h = 0xcbf29ce484222325u64;
        for b in data {
            h = (h ^ *b as u64).wrapping_mul(0x100000001b3);
        }
        let path = format!("{}/{}-fuzz-{:016x}.json", dir, subcheck, h);
        let (decoded, _) = describe(sc, &cw, known, true);
        let doc = serde_json::json!({
            "property": prop_id, "subcheck": subcheck, "words": words_json(&cw), "detail": msg, "decoded": decoded,
            "found_by": "libFuzzer", "replay": format!("./check {} --replay {}", prop_id, path),
        });
        let _ = std::fs::write(&path, serde_json::to_string_pretty(&doc).unwrap());
        println!("VIOLATION property={} replay={}", prop_id, path);
        eprintln!("violation in {}/{}: {}", prop_id, subcheck, msg);
        std::process::abort();
    }
}
