//! Constructive generators: every operand is *built* valid from a few choices; no
//! rejection.  Class 0 of each choice is the simplest value.

use crate::engine::Ctx;
use oracle::big::pow2_f64;
use oracle::Big;
use twofloat::TwoFloat;

#[derive(Clone, Copy, Debug, PartialEq)]
pub struct Dd {
    pub hi: f64,
    pub lo: f64,
}

impl Dd {
    pub fn new(hi: f64, lo: f64) -> Dd {
        Dd { hi, lo }
    }
    pub fn of(t: TwoFloat) -> Dd {
        Dd { hi: t.hi(), lo: t.lo() }
    }
    /// The value as a `TwoFloat` of the crate built exactly as users build it (no verif_hooks):
    /// valid pairs through the checked constructor, the non-finite values of the API pool by
    /// looking up the object the API returned.  Anything else cannot be built without the
    /// hook (use `tfh`).
    pub fn tf(self) -> TwoFloat {
        use std::convert::TryFrom;
        if let Ok(t) = TwoFloat::try_from((self.hi, self.lo)) {
            return t;
        }
        // exact bit patterns first (NaN payloads and signalling NaNs are distinct objects)
        for (_, t) in nonfinite_pool_objects().iter() {
            if t.hi().to_bits() == self.hi.to_bits() && t.lo().to_bits() == self.lo.to_bits() {
                return *t;
            }
        }
        for (_, t) in nonfinite_pool_objects().iter() {
            if same_word(t.hi(), self.hi) && same_word(t.lo(), self.lo) {
                return *t;
            }
        }
        panic!("cannot construct {:?} through the public API (checked constructor rejected it)", self)
    }
    /// unchecked construction in the instrumented copy of the crate (feature verif_hooks)
    pub fn tfh(self) -> tf_hooked::TwoFloat {
        tf_hooked::verif_hooks::raw(self.hi, self.lo)
    }
    /// exact value (both words must be finite)
    pub fn big(self) -> Big {
        Big::from_pair(self.hi, self.lo)
    }
    pub fn finite(self) -> bool {
        self.hi.is_finite() && self.lo.is_finite()
    }
    /// Definition 1.4 evaluated on the hardware: both finite and hi == RN(hi + lo)
    pub fn valid(self) -> bool {
        self.hi.is_finite() && self.lo.is_finite() && self.hi + self.lo == self.hi
    }
    pub fn neg(self) -> Dd {
        Dd { hi: -self.hi, lo: -self.lo }
    }
    pub fn show(self) -> String {
        format!("({}, {})", showf(self.hi), showf(self.lo))
    }
    pub fn key(self, ctx: &mut Ctx) {
        ctx.key_f64(self.hi);
        ctx.key_f64(self.lo);
    }
}

pub fn showf(x: f64) -> String {
    format!("{:e} [0x{:016x}]", x, x.to_bits())
}

/// words are "the same": identical bits, or both NaN (Rust leaves NaN sign/payload unspecified)
pub fn same_word(a: f64, b: f64) -> bool {
    a.to_bits() == b.to_bits() || (a.is_nan() && b.is_nan())
}
pub fn same_dd(a: Dd, b: Dd) -> bool {
    same_word(a.hi, b.hi) && same_word(a.lo, b.lo)
}

pub fn exponent(x: f64) -> i64 {
    // unbiased exponent of a finite non-zero f64 (floor(log2|x|))
    let e = ((x.to_bits() >> 52) & 0x7ff) as i64;
    if e == 0 {
        let m = x.to_bits() & ((1u64 << 52) - 1);
        -1075 + (64 - m.leading_zeros() as i64)
    } else {
        e - 1023
    }
}

pub fn ulp(x: f64) -> f64 {
    // ulp of a finite normal x; 2^-1074 for subnormals / zero
    let e = exponent(x.abs().max(f64::MIN_POSITIVE));
    pow2_f64((e - 52).max(-1074))
}

pub fn next_up(x: f64) -> f64 {
    if x.is_nan() || x == f64::INFINITY {
        return x;
    }
    if x == 0.0 {
        return f64::from_bits(1);
    }
    let b = x.to_bits();
    if x > 0.0 {
        f64::from_bits(b + 1)
    } else {
        f64::from_bits(b - 1)
    }
}
pub fn next_down(x: f64) -> f64 {
    -next_up(-x)
}
pub fn step(x: f64, k: i64) -> f64 {
    if k.abs() > 64 && x.is_finite() {
        // many ulps at once: move along the ordered-integer image of the f64 line
        let key = |v: f64| -> i64 {
            let b = v.to_bits() as i64;
            if b < 0 { i64::MIN - b } else { b }
        };
        let unkey = |i: i64| -> f64 { f64::from_bits(if i < 0 { (i64::MIN - i) as u64 } else { i as u64 }) };
        let r = unkey(key(x).saturating_add(k));
        return if r.is_nan() { if k > 0 { f64::INFINITY } else { f64::NEG_INFINITY } } else { r };
    }
    let mut r = x;
    for _ in 0..k.abs() {
        r = if k > 0 { next_up(r) } else { next_down(r) };
    }
    r
}

/// 52-bit mantissa field by class
pub fn mantissa(ctx: &mut Ctx) -> u64 {
    const M: u64 = (1u64 << 52) - 1;
    let c = ctx.weighted(&[4, 10, 3, 2, 3, 2, 2, 2, 1, 3, 1]);
    let raw = ctx.bits(52);
    match c {
        9 => {
            // 1 + eps with eps log-uniform in [2^-52, 2^-2]: just above a power of two at every scale
            ctx.label("mant:above-pow2");
            let k = 2 + (raw % 50) as u32;
            (raw >> k).max(1)
        }
        10 => {
            // 2 - eps, eps log-uniform
            let k = 2 + (raw % 50) as u32;
            M - (raw >> k)
        }
        0 => {
            ctx.label("mant:pow2");
            0
        }
        1 => raw,
        2 => {
            ctx.label("mant:ones");
            M
        }
        3 => 1,
        4 => {
            // short: only the top k bits; half of the time k is around half the significand
            // width (24..=29 fraction bits: splitting / "fits in half a word" shortcuts), with
            // the last kept bit forced to 1 so that the width is exact
            let sel = raw % 40;
            if sel < 20 {
                let k = 1 + sel as u32;
                (raw >> (52 - k)) << (52 - k)
            } else {
                ctx.label("mant:half-width");
                let k = 23 + (sel % 7) as u32;
                ((raw >> (52 - k)) | 1) << (52 - k)
            }
        }
        5 => raw & !1,
        6 => raw | 1,
        7 => raw % 16,     // just above a power of two
        _ => M - raw % 16, // just below the next power of two
    }
}

/// finite non-zero normal f64 with unbiased exponent in [emin, emax] (within [-1022, 1023])
pub fn f64_exp(ctx: &mut Ctx, emin: i64, emax: i64) -> f64 {
    let e = exp_in(ctx, emin, emax);
    let m = mantissa(ctx);
    let s = ctx.flag();
    f64::from_bits(((s as u64) << 63) | (((e + 1023) as u64) << 52) | m)
}

/// exponent choice: mostly near 0 (clamped into range) and uniform, sometimes the edges
pub fn exp_in(ctx: &mut Ctx, emin: i64, emax: i64) -> i64 {
    debug_assert!(emin <= emax && emin >= -1022 && emax <= 1023);
    let c = ctx.weighted(&[6, 6, 1, 1, 2, 1]);
    let e = match c {
        0 => ctx.range(-3, 3),
        1 => ctx.range(emin, emax),
        2 => emin + ctx.range(0, 2),
        3 => emax - ctx.range(0, 2),
        4 => ctx.range(-60, 60),
        _ => {
            // exponents at which something changes in binary64 / binary32 / the integer types /
            // the crate's own range switches (low words start to be subnormal at 2^-969 ...)
            const SPECIAL: [i64; 40] = [
                -1022, -1021, -1020, -1000, -999, -971, -970, -969, -968, -967, -960, -916, -900, -511, -510, -450, -400, -150, -149, -127, -126, -54, -53, -27,
                26, 27, 52, 53, 54, 63, 64, 127, 128, 400, 450, 900, 960, 996, 1000, 1022,
            ];
            let e = SPECIAL[ctx.below(SPECIAL.len() as u64) as usize];
            if e < emin || e > emax {
                ctx.range(emin, emax)
            } else {
                e
            }
        }
    };
    e.clamp(emin, emax)
}

/// A low word making (hi, lo) a valid double-double; hi finite, normal, non-zero.
pub fn low_word(ctx: &mut Ctx, hi: f64) -> f64 {
    let c = ctx.weighted(&[3, 1, 3, 2, 1, 1, 8, 3, 1, 1, 2, 3]);
    let neg = ctx.flag();
    let raw = ctx.bits(52);
    let gsel = ctx.word();
    let e = exponent(hi);
    let pow2_hi = hi.to_bits() & ((1u64 << 52) - 1) == 0;
    let opposite = neg != (hi < 0.0);
    // largest admissible |lo| is `limit` (attained only if the mantissa of hi is even)
    let lim_e = if pow2_hi && opposite { e - 54 } else { e - 53 };
    if lim_e < -1074 {
        return if neg { -0.0 } else { 0.0 };
    }
    let limit = pow2_f64(lim_e);
    let even = hi.to_bits() & 1 == 0;
    let below = f64::from_bits(limit.to_bits() - 1);
    let sgn = if neg { -1.0 } else { 1.0 };
    let gap_of = |g: u64| -> i64 {
        // distribution of the exponent gap below the limit
        match g % 8 {
            0 | 1 | 2 => ((g >> 8) % 6) as i64,
            3 | 4 => ((g >> 8) % 60) as i64,
            5 => 50 + ((g >> 8) % 60) as i64,
            6 => ((g >> 8) % 1100) as i64,
            _ => ((g >> 8) % 2100) as i64,
        }
    };
    let lo = match c {
        0 => 0.0,
        1 => 0.0,
        2 => {
            ctx.label("lo:tie");
            if even {
                limit
            } else {
                below
            }
        }
        3 => {
            ctx.label("lo:below-tie");
            below
        }
        4 => limit / 2.0,
        5 => {
            if lim_e - 1 > -1074 {
                f64::from_bits((limit / 2.0).to_bits() + 1)
            } else {
                limit / 2.0
            }
        }
        6 | 7 => {
            // random mantissa `gap` binades below the limit
            let g = if c == 6 { gap_of(gsel) } else { gap_of(gsel | 7) };
            let le = lim_e - 1 - g;
            if le < -1022 {
                // subnormal low word: random small multiple of 2^-1074
                ctx.label("lo:subnormal");
                let width = (le + 1075).clamp(1, 52) as u32;
                f64::from_bits((raw >> (52 - width)).max(1))
            } else {
                f64::from_bits((((le + 1023) as u64) << 52) | raw)
            }
        }
        8 => {
            ctx.label("lo:min-subnormal");
            f64::from_bits(1)
        }
        11 => {
            // near the tie but not on it: limit * (1 - eps), eps log-uniform in [2^-52, 2^-3]
            ctx.label("lo:near-tie");
            let k = 3 + (gsel % 49) as u32;
            if lim_e - 1 < -1022 {
                below
            } else {
                let m = ((1u64 << 52) - 1) - (raw >> k);
                f64::from_bits((((lim_e - 1 + 1023) as u64) << 52) | m)
            }
        }
        9 => {
            // power of two somewhere below
            let g = gap_of(gsel);
            let le = (lim_e - 1 - g).max(-1074);
            pow2_f64(le)
        }
        _ => {
            // all-ones mantissa just below the limit, or short mantissa
            let le = lim_e - 1 - (gsel % 3) as i64;
            if le < -1022 {
                f64::from_bits(1)
            } else if gsel & 8 == 0 {
                f64::from_bits((((le + 1023) as u64) << 52) | ((1u64 << 52) - 1))
            } else {
                f64::from_bits((((le + 1023) as u64) << 52) | ((raw >> 40) << 40))
            }
        }
    };
    // clamp into the admissible set (matters only when the limit is within a few ulps of 2^-1074)
    let lo = if lo > limit || (lo == limit && !even) { below } else { lo };
    let lo = if c == 1 { -0.0 } else { sgn * lo };
    if lo != 0.0 {
        ctx.label("lo:nonzero");
    }
    assert!(hi + lo == hi, "generator built an invalid pair ({:e}, {:e})", hi, lo);
    lo
}

/// valid double-double with |hi| exponent in [emin, emax]; `zero_ok` adds exact zeros
pub fn dd_exp(ctx: &mut Ctx, emin: i64, emax: i64, zero_ok: bool) -> Dd {
    if zero_ok && ctx.chance(1, 40) {
        ctx.label("zero");
        let z = if ctx.flag() { -0.0 } else { 0.0 };
        let zl = if ctx.flag() { -0.0 } else { 0.0 };
        return Dd::new(z, zl);
    }
    if ctx.chance(1, 24) {
        if let Some(d) = decimal_literal(ctx, emin, emax) {
            return d;
        }
    }
    if ctx.chance(1, 16) {
        if let Some(hi) = source_literal(ctx, emin, emax) {
            let lo = if ctx.chance(1, 3) { 0.0 } else { low_word(ctx, hi) };
            return Dd::new(hi, lo);
        }
    }
    let hi = f64_exp(ctx, emin, emax);
    let lo = low_word(ctx, hi);
    Dd::new(hi, lo)
}

/// What users write: k x 10^j (0.1, 0.25, 3, 100, 1e-3, 6.02e23 ...), either as the f64 literal
/// promoted with a zero low word or as the double-double quotient / product of the two integers
/// (`TwoFloat::from(k) / 10^j`, obtained through the crate's own operators, like a user would).
pub fn decimal_literal(ctx: &mut Ctx, emin: i64, emax: i64) -> Option<Dd> {
    let k = match ctx.below(3) {
        0 => ctx.range(1, 9),
        1 => ctx.range(1, 99),
        _ => ctx.range(1, 9999),
    } as f64;
    let j = match ctx.below(4) {
        0 | 1 => ctx.range(-3, 3),
        2 => ctx.range(-22, 22),
        _ => ctx.range(-300, 300),
    };
    let p = 10f64.powi(j.unsigned_abs().min(22) as i32); // exact for |j| <= 22
    // the value the compiler gives the literal `k e j` (correctly rounded), for every j
    let hi: f64 = format!("{}e{}", k, j).parse().unwrap_or(1.0);
    let refined = ctx.flag();
    let neg = ctx.flag();
    let d = if refined && j.abs() <= 22 {
        let t = if j < 0 { TwoFloat::from(k) / TwoFloat::from(p) } else { TwoFloat::from(k) * TwoFloat::from(p) };
        Dd::of(t)
    } else {
        Dd::new(hi, 0.0)
    };
    let d = if neg { d.neg() } else { d };
    if !d.valid() || d.hi == 0.0 || exponent(d.hi) < emin || exponent(d.hi) > emax {
        return None;
    }
    ctx.label("operand:decimal-literal");
    Some(d)
}

/// valid double-double near a given f64 `hi` (hi finite normal non-zero)
pub fn dd_at(ctx: &mut Ctx, hi: f64) -> Dd {
    Dd::new(hi, low_word(ctx, hi))
}

/// Second operand related to `a` (for +,-: cancellation; for /: quotient near 1; ...).
/// Result exponent is clamped into [emin, emax].
pub fn related(ctx: &mut Ctx, a: Dd, emin: i64, emax: i64) -> Dd {
    let c = ctx.weighted(&[8, 2, 2, 2, 6, 3, 4, 2, 1]);
    if a.hi == 0.0 || !a.hi.is_finite() {
        return dd_exp(ctx, emin, emax, false);
    }
    let ea = exponent(a.hi);
    let r = match c {
        0 => dd_exp(ctx, emin, emax, false),
        1 => {
            ctx.label("rel:equal");
            a
        }
        2 => {
            ctx.label("rel:negated");
            a.neg()
        }
        3 => {
            ctx.label("rel:neg-hi");
            dd_at(ctx, -a.hi)
        }
        4 => {
            // b ~ -a(1 +- 2^-d): cancellation at depth d
            ctx.label("rel:cancel");
            let d = ctx.range(0, 110);
            if d < 53 {
                let bit = 1u64 << (52 - d).clamp(0, 51);
                let hb = (a.hi.to_bits() ^ bit) ^ (1u64 << 63);
                let hi = f64::from_bits(hb);
                if hi.is_finite() && hi != 0.0 && exponent(hi) >= -1022 {
                    dd_at(ctx, hi)
                } else {
                    a.neg()
                }
            } else {
                let j = (d - 53).min(51) as u32;
                let lo = f64::from_bits((-a.lo).to_bits() ^ (1u64 << j));
                let hi = -a.hi;
                if lo.is_finite() && hi + lo == hi {
                    Dd::new(hi, lo)
                } else {
                    a.neg()
                }
            }
        }
        5 => {
            ctx.label("rel:ulps");
            let k = ctx.range(1, 3) * if ctx.flag() { -1 } else { 1 };
            let hi = step(a.hi, k) * if ctx.flag() { -1.0 } else { 1.0 };
            if hi.is_finite() && hi != 0.0 && exponent(hi) >= -1022 {
                dd_at(ctx, hi)
            } else {
                a
            }
        }
        6 => {
            ctx.label("rel:gap");
            let g = if ctx.chance(1, 4) { ctx.range(0, 2000) } else { ctx.range(0, 120) };
            let e = (ea - g).clamp(emin, emax);
            let m = mantissa(ctx);
            let s = ctx.flag();
            let hi = f64::from_bits(((s as u64) << 63) | (((e + 1023) as u64) << 52) | m);
            dd_at(ctx, hi)
        }
        7 => {
            ctx.label("rel:pow2");
            let e = exp_in(ctx, emin, emax);
            let hi = pow2_f64(e) * if ctx.flag() { -1.0 } else { 1.0 };
            Dd::new(hi, 0.0)
        }
        _ => {
            ctx.label("rel:one");
            Dd::new(if ctx.flag() { -1.0 } else { 1.0 }, 0.0)
        }
    };
    let e = exponent(r.hi);
    if e < emin || e > emax {
        dd_exp(ctx, emin, emax, false)
    } else {
        r
    }
}

/// finite f64 operand for mixed operations, related to `a`
pub fn f64_related(ctx: &mut Ctx, a: Dd, emin: i64, emax: i64) -> f64 {
    let c = ctx.weighted(&[6, 2, 2, 3, 3, 1, 1]);
    if a.hi == 0.0 || !a.hi.is_finite() {
        return f64_exp(ctx, emin, emax);
    }
    let r = match c {
        0 => f64_exp(ctx, emin, emax),
        1 => a.hi,
        2 => -a.hi,
        3 => {
            ctx.label("rel:ulps");
            let k = ctx.range(1, 3) * if ctx.flag() { -1 } else { 1 };
            step(a.hi, k) * if ctx.flag() { -1.0 } else { 1.0 }
        }
        4 => {
            ctx.label("rel:gap");
            let g = if ctx.chance(1, 4) { ctx.range(0, 2000) } else { ctx.range(0, 120) };
            let e = (exponent(a.hi) - g).clamp(emin, emax);
            let m = mantissa(ctx);
            f64::from_bits(((ctx.flag() as u64) << 63) | (((e + 1023) as u64) << 52) | m)
        }
        5 => {
            // cancels the low word too
            ctx.label("rel:cancel-lo");
            if a.lo != 0.0 && exponent(a.lo) >= emin {
                -a.lo
            } else {
                -a.hi
            }
        }
        _ => pow2_f64(exp_in(ctx, emin, emax)) * if ctx.flag() { -1.0 } else { 1.0 },
    };
    if r == 0.0 || !r.is_finite() || exponent(r) < emin || exponent(r) > emax {
        f64_exp(ctx, emin, emax)
    } else {
        r
    }
}

/// any finite or non-finite f64 bit pattern by class (for C02/C06/C07 style sweeps)
pub fn f64_any(ctx: &mut Ctx) -> f64 {
    let c = ctx.weighted(&[8, 2, 1, 1, 1, 1, 2, 1]);
    match c {
        0 => f64_exp(ctx, -1022, 1023),
        1 => {
            ctx.label("subnormal");
            let m = mantissa(ctx).max(1);
            f64::from_bits(((ctx.flag() as u64) << 63) | m)
        }
        2 => 0.0,
        3 => -0.0,
        4 => f64::INFINITY,
        5 => f64::NEG_INFINITY,
        6 => f64::from_bits(ctx.word()),
        _ => f64::NAN,
    }
}

/// Non-finite / NaN-carrying values obtained by actually calling the public API.
pub fn nonfinite_pool_objects() -> &'static Vec<(&'static str, TwoFloat)> {
    static P: std::sync::OnceLock<Vec<(&'static str, TwoFloat)>> = std::sync::OnceLock::new();
    P.get_or_init(|| {
        let inf = f64::INFINITY;
        vec![
            ("NAN", TwoFloat::NAN),
            ("INFINITY", TwoFloat::INFINITY),
            ("NEG_INFINITY", TwoFloat::NEG_INFINITY),
            ("new_add(inf,1)", TwoFloat::new_add(inf, 1.0)),
            ("new_add(-inf,1)", TwoFloat::new_add(-inf, 1.0)),
            ("new_sub(1,inf)", TwoFloat::new_sub(1.0, inf)),
            ("new_mul(1e300,1e300)", TwoFloat::new_mul(1e300, 1e300)),
            ("new_mul(-1e300,1e300)", TwoFloat::new_mul(-1e300, 1e300)),
            ("new_div(1,0)", TwoFloat::new_div(1.0, 0.0)),
            ("new_div(0,0)", TwoFloat::new_div(0.0, 0.0)),
            ("from(NaN)", TwoFloat::from(f64::NAN)),
            ("from(inf)", TwoFloat::from(inf)),
            ("from(-inf)", TwoFloat::from(-inf)),
            ("exp(1000)", TwoFloat::from(1000.0).exp()),
            ("exp2(2000)", TwoFloat::from(2000.0).exp2()),
            ("sqrt(-1)", TwoFloat::from(-1.0).sqrt()),
            ("ln(0)", TwoFloat::from(0.0).ln()),
            ("1/0", 1.0 / TwoFloat::from(0.0)),
            ("0/0", TwoFloat::from(0.0) / TwoFloat::from(0.0)),
            ("MAX+MAX", TwoFloat::MAX + TwoFloat::MAX),
            ("MAX*2", TwoFloat::MAX * 2.0),
            ("MIN*MAX", TwoFloat::MIN * TwoFloat::MAX),
            ("-NAN", -TwoFloat::NAN),
            ("INFINITY-INFINITY", TwoFloat::INFINITY - TwoFloat::INFINITY),
            ("asin(2)", TwoFloat::from(2.0).asin()),
            // NaNs that are not the canonical quiet NaN: signalling (quiet bit clear), negative, with payload;
            // `From<f64>` stores the word untouched, so they are reachable through the API
            ("from(sNaN)", TwoFloat::from(f64::from_bits(0x7ff0_0000_0000_0001))),
            ("from(-sNaN)", TwoFloat::from(f64::from_bits(0xfff0_0000_0000_0001))),
            ("from(sNaN payload)", TwoFloat::from(f64::from_bits(0x7ff4_0000_0000_0000))),
            ("from(qNaN payload)", TwoFloat::from(f64::from_bits(0x7ff8_0000_dead_beef))),
            ("from_f64(-qNaN)", TwoFloat::from_f64(f64::from_bits(0xfff8_0000_0000_0000))),
        ]
    })
}

/// valid double-double whose high word lies in the CLOSED range [2^emin, 2^emax_closed]: like
/// `dd_exp(emin, emax_closed - 1)` but the upper end point +-2^emax_closed itself is produced too
pub fn dd_closed(ctx: &mut Ctx, emin: i64, emax_closed: i64, zero_ok: bool) -> Dd {
    if ctx.chance(1, 48) {
        ctx.label("range-endpoint");
        let hi = pow2_f64(if ctx.chance(3, 4) { emax_closed } else { emin }) * if ctx.flag() { -1.0 } else { 1.0 };
        return dd_at(ctx, hi);
    }
    dd_exp(ctx, emin, emax_closed - 1, zero_ok)
}

/// the crate's own published constants (and MAX/MIN/MIN_POSITIVE) as operands
pub fn constant_operands() -> &'static Vec<(&'static str, Dd)> {
    static C: std::sync::OnceLock<Vec<(&'static str, Dd)>> = std::sync::OnceLock::new();
    C.get_or_init(|| {
        use twofloat::consts as k;
        vec![
            ("E", k::E), ("FRAC_1_PI", k::FRAC_1_PI), ("FRAC_2_PI", k::FRAC_2_PI), ("FRAC_2_SQRT_PI", k::FRAC_2_SQRT_PI), ("FRAC_1_SQRT_2", k::FRAC_1_SQRT_2),
            ("FRAC_PI_2", k::FRAC_PI_2), ("FRAC_PI_3", k::FRAC_PI_3), ("FRAC_PI_4", k::FRAC_PI_4), ("FRAC_PI_6", k::FRAC_PI_6), ("FRAC_PI_8", k::FRAC_PI_8),
            ("LN_10", k::LN_10), ("LN_2", k::LN_2), ("LOG10_E", k::LOG10_E), ("LOG2_E", k::LOG2_E), ("PI", k::PI), ("SQRT_2", k::SQRT_2), ("TAU", k::TAU),
            ("LOG10_2", k::LOG10_2), ("LOG2_10", k::LOG2_10), ("MAX", TwoFloat::MAX), ("MIN", TwoFloat::MIN), ("MIN_POSITIVE", TwoFloat::MIN_POSITIVE),
        ]
        .into_iter()
        .map(|(n, t)| (n, Dd::of(t)))
        .collect()
    })
}

/// with probability 1/den: one of the published constants (possibly negated, halved or doubled)
pub fn maybe_constant(ctx: &mut Ctx, den: u64, allow_extremes: bool) -> Option<Dd> {
    if !ctx.chance(1, den) {
        return None;
    }
    let c = constant_operands();
    let n = if allow_extremes { c.len() } else { c.len() - 3 };
    let d = c[ctx.below(n as u64) as usize].1;
    ctx.label("operand:published-constant");
    let d = match ctx.below(7) {
        6 if d.lo != 0.0 && d.lo.abs() > 1e-300 => {
            // the constant with its low word moved by a few ulps: "almost the constant"
            ctx.label("operand:constant-perturbed");
            let j = match ctx.below(3) {
                0 => ctx.range(1, 8),
                1 => ctx.range(9, 128),
                _ => 1i64 << ctx.range(7, 20),
            };
            let j = if ctx.flag() { -j } else { j };
            let lo = step(d.lo, j);
            let p = Dd::new(d.hi, lo);
            if p.valid() { p } else { d }
        }
        0 => d.neg(),
        1 if d.hi.abs() < 1e300 && d.hi.abs() > 1e-300 => Dd::new(d.hi * 2.0, d.lo * 2.0),
        2 if d.hi.abs() < 1e300 && d.hi.abs() > 1e-290 => Dd::new(d.hi * 0.5, d.lo * 0.5),
        _ => d,
    };
    Some(d)
}

/// An operand that is the RESULT of an earlier API call on generated values (negation, abs,
/// rounding functions, a difference of related values, a product, a quotient by a small integer,
/// a square root, a sum with a tiny f64): such values carry the word patterns results really have
/// (-0.0 low words, subnormal or oddly placed low words, exact ties produced by renormalisation).
/// The oracle always works from the actual words, so any valid result is a legitimate input.
pub fn derived_operand(ctx: &mut Ctx, emin: i64, emax: i64) -> Option<Dd> {
    let a = dd_exp(ctx, emin, emax, true);
    let b = if ctx.flag() { related(ctx, a, emin, emax) } else { dd_exp(ctx, emin, emax, true) };
    let which = ctx.below(14);
    let small = [3.0, 7.0, 10.0, 0.1, 1.0 / 3.0][ctx.below(5) as usize];
    let tiny = f64_exp(ctx, -1022, -900);
    let (ta, tb) = (a.tf(), b.tf());
    let r = crate::engine::guard(|| match which {
        0 => -ta,
        1 => ta.abs(),
        2 => ta.trunc(),
        3 => ta.floor(),
        4 => ta.round(),
        5 => ta.fract(),
        6 => ta - tb,
        7 => ta + tb,
        8 => ta * tb,
        9 => ta / small,
        10 => ta.abs().sqrt(),
        11 => ta + tiny,
        12 => ta * small,
        _ => -(ta - ta.hi()),
    })
    .ok()?;
    let d = Dd::of(r);
    if d.valid() && (d.hi == 0.0 || (d.hi.abs() >= pow2_f64(emin.max(-1022)) && d.hi.abs() < pow2_f64((emax + 1).min(1023)))) {
        ctx.label("operand:result-of-earlier-operation");
        Some(d)
    } else {
        None
    }
}

#[cfg(test)]
mod step_tests {
    use super::*;
    #[test]
    fn big_steps_equal_repeated_small_steps() {
        for &x in &[1.0f64, -1.0, 1e-310, -1e-310, 0.0, 5e-324, -5e-324, 1.5e300] {
            for &k in &[65i64, -65, 200, -200, 1000, -1000] {
                let mut r = x;
                for _ in 0..k.abs() {
                    r = if k > 0 { next_up(r) } else { next_down(r) };
                }
                let s = step(x, k);
                assert!(s == r, "step({x:e}, {k}) = {s:e} but repeated stepping gives {r:e}");
            }
        }
    }
}

/// An end point `l` of a stated range, approached from INSIDE (`dir` = +1: the range lies
/// above `l`, -1: below): the high word is exactly `l` and the low word points inward (any
/// low-word class, or zero), or the high word is `l` moved inward by 1..3 ulps with any low word.
/// Values a few ulps away are covered by the pivots; this class is about the end point itself.
pub fn end_point(ctx: &mut Ctx, l: f64, dir: i32) -> Dd {
    debug_assert!(l.is_finite() && l != 0.0);
    ctx.label("arg:range-end-point");
    if ctx.chance(2, 3) {
        let lo = low_word(ctx, l).abs();
        let lo = if ctx.chance(1, 6) { 0.0 } else if dir > 0 { lo } else { -lo };
        let d = Dd::new(l, lo);
        if d.valid() {
            return d;
        }
        return Dd::new(l, 0.0);
    }
    let j = ctx.range(1, 3);
    let hi = step(l, if dir > 0 { j } else { -j });
    dd_at(ctx, hi)
}

/// the two ends of a symmetric range |x| <= l
pub fn end_point_sym(ctx: &mut Ctx, l: f64) -> Dd {
    if ctx.flag() {
        end_point(ctx, l, -1)
    } else {
        end_point(ctx, -l, 1)
    }
}

/// Integer-valued operand at an r-th root of an integer-type limit: floor((2^b)^(1/r)) + d
/// (3037000499 = floor(sqrt(2^63)), 46340, 65535, 2097151 = floor(cbrt(2^63)), ...): where
/// "compute it in integers when it fits" shortcuts change sides.  Returns (value, r).
pub fn integer_root_boundary(ctx: &mut Ctx) -> (f64, i32) {
    ctx.label("operand:integer-root-boundary");
    let b = [15u32, 16, 31, 32, 53, 63, 64, 127, 128][ctx.below(9) as usize];
    let r = [2i32, 2, 2, 3, 3, 4, 5][ctx.below(7) as usize];
    // floor of the real root, exactly, by integer search on u128 (b <= 128, r >= 2 => root < 2^64)
    let target: Option<u128> = if b == 128 { None } else { Some(1u128 << b) };
    let fits = |v: u128| -> bool {
        // v^r <= 2^b - 1 ?  (i.e. v^r < 2^b)
        let mut acc: u128 = 1;
        for _ in 0..r {
            match acc.checked_mul(v) {
                Some(t) => acc = t,
                None => return false,
            }
        }
        match target {
            Some(t) => acc < t,
            None => true,
        }
    };
    let (mut lo, mut hi) = (1u128, 1u128 << 64);
    while lo + 1 < hi {
        let mid = (lo + hi) / 2;
        if fits(mid) {
            lo = mid;
        } else {
            hi = mid;
        }
    }
    let d = ctx.range(-2, 2);
    let v = (lo as i128 + d as i128).max(1) as f64;
    (if ctx.flag() { -v } else { v }, r)
}

/// The numeric literals of the crate's own source (work/literals.txt, written by
/// harvest_literals.py on every ./check): a dictionary in the fuzzing sense.
pub fn source_literals() -> &'static (Vec<f64>, Vec<f64>) {
    // (decimal / scientific literals - thresholds and limits; hexf literals - table entries and constants)
    static L: std::sync::OnceLock<(Vec<f64>, Vec<f64>)> = std::sync::OnceLock::new();
    L.get_or_init(|| {
        let dir = std::env::var("VERIF_DIR").unwrap_or_else(|_| "/verif".into());
        let text = std::fs::read_to_string(format!("{dir}/work/literals.txt")).unwrap_or_default();
        let (mut s, mut h) = (Vec::new(), Vec::new());
        for l in text.lines() {
            let mut it = l.split_whitespace();
            let Some(b) = it.next().and_then(|t| u64::from_str_radix(t, 16).ok()) else { continue };
            let x = f64::from_bits(b);
            if !x.is_finite() || x == 0.0 {
                continue;
            }
            if it.next() == Some("h") {
                h.push(x)
            } else {
                s.push(x)
            }
        }
        (s, h)
    })
}

/// A high word that is EXACTLY a literal of the source (either sign), or one of its close
/// relatives (half, double, +-1..2 ulps): thresholds that comparisons are keyed on are hit
/// exactly, on both sides, and with every low-word class.
pub fn source_literal(ctx: &mut Ctx, emin: i64, emax: i64) -> Option<f64> {
    let (short, long) = source_literals();
    let l = if !short.is_empty() && (long.is_empty() || ctx.chance(3, 4)) { short } else { long };
    if l.is_empty() {
        return None;
    }
    let v = l[ctx.below(l.len() as u64) as usize];
    let v = match ctx.below(8) {
        0 => v * 2.0,
        1 => v * 0.5,
        2 => step(v, ctx.range(-2, 2)),
        _ => v,
    };
    let v = if ctx.flag() { -v } else { v };
    if !v.is_finite() || v == 0.0 || !v.is_normal() || exponent(v) < emin || exponent(v) > emax {
        return None;
    }
    ctx.label("operand:source-literal");
    Some(v)
}

/// ANY valid double-double as far as the words go: `dd_exp` over all normal binades, plus the
/// values the normal-binade generator cannot make - a subnormal high word (the low word is then
/// necessarily zero) of either sign, of every width.
pub fn dd_all(ctx: &mut Ctx) -> Dd {
    if ctx.chance(1, 24) {
        ctx.label("hi:subnormal");
        let width = 1 + ctx.below(52) as u32;
        let m = (ctx.bits(52) >> (52 - width)).max(1);
        let m = match ctx.below(4) {
            0 => 1,                  // the smallest subnormal
            1 => (1u64 << 52) - 1,   // the largest one
            _ => m,
        };
        let hi = f64::from_bits(((ctx.flag() as u64) << 63) | m);
        return Dd::new(hi, if ctx.flag() { 0.0 } else { -0.0 });
    }
    dd_exp(ctx, -1022, 1023, true)
}
