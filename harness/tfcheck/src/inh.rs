//! Inherent methods of TwoFloat called from a module where NO num_traits trait is in scope,
//! so that method resolution cannot silently pick a trait method with a by-value receiver.
use twofloat::TwoFloat;

pub fn floor(x: TwoFloat) -> TwoFloat {
    x.floor()
}
pub fn ceil(x: TwoFloat) -> TwoFloat {
    x.ceil()
}
pub fn round(x: TwoFloat) -> TwoFloat {
    x.round()
}
pub fn trunc(x: TwoFloat) -> TwoFloat {
    x.trunc()
}
pub fn fract(x: TwoFloat) -> TwoFloat {
    x.fract()
}
pub fn abs(x: TwoFloat) -> TwoFloat {
    x.abs()
}
pub fn signum(x: TwoFloat) -> TwoFloat {
    x.signum()
}
pub fn recip(x: TwoFloat) -> TwoFloat {
    x.recip()
}
pub fn sqrt(x: TwoFloat) -> TwoFloat {
    x.sqrt()
}
pub fn cbrt(x: TwoFloat) -> TwoFloat {
    x.cbrt()
}
pub fn exp(x: TwoFloat) -> TwoFloat {
    x.exp()
}
pub fn exp2(x: TwoFloat) -> TwoFloat {
    x.exp2()
}
pub fn exp_m1(x: TwoFloat) -> TwoFloat {
    x.exp_m1()
}
pub fn ln(x: TwoFloat) -> TwoFloat {
    x.ln()
}
pub fn log2(x: TwoFloat) -> TwoFloat {
    x.log2()
}
pub fn log10(x: TwoFloat) -> TwoFloat {
    x.log10()
}
pub fn ln_1p(x: TwoFloat) -> TwoFloat {
    x.ln_1p()
}
pub fn sin(x: TwoFloat) -> TwoFloat {
    x.sin()
}
pub fn cos(x: TwoFloat) -> TwoFloat {
    x.cos()
}
pub fn tan(x: TwoFloat) -> TwoFloat {
    x.tan()
}
pub fn asin(x: TwoFloat) -> TwoFloat {
    x.asin()
}
pub fn acos(x: TwoFloat) -> TwoFloat {
    x.acos()
}
pub fn atan(x: TwoFloat) -> TwoFloat {
    x.atan()
}
pub fn sinh(x: TwoFloat) -> TwoFloat {
    x.sinh()
}
pub fn cosh(x: TwoFloat) -> TwoFloat {
    x.cosh()
}
pub fn tanh(x: TwoFloat) -> TwoFloat {
    x.tanh()
}
pub fn asinh(x: TwoFloat) -> TwoFloat {
    x.asinh()
}
pub fn acosh(x: TwoFloat) -> TwoFloat {
    x.acosh()
}
pub fn atanh(x: TwoFloat) -> TwoFloat {
    x.atanh()
}
pub fn to_degrees(x: TwoFloat) -> TwoFloat {
    x.to_degrees()
}
pub fn to_radians(x: TwoFloat) -> TwoFloat {
    x.to_radians()
}
pub fn min(x: TwoFloat, y: TwoFloat) -> TwoFloat {
    x.min(y)
}
pub fn max(x: TwoFloat, y: TwoFloat) -> TwoFloat {
    x.max(y)
}
pub fn powf(x: TwoFloat, y: TwoFloat) -> TwoFloat {
    x.powf(y)
}
pub fn hypot(x: TwoFloat, y: TwoFloat) -> TwoFloat {
    x.hypot(y)
}
pub fn atan2(x: TwoFloat, y: TwoFloat) -> TwoFloat {
    x.atan2(y)
}
pub fn log(x: TwoFloat, y: TwoFloat) -> TwoFloat {
    x.log(y)
}
pub fn copysign(x: TwoFloat, y: TwoFloat) -> TwoFloat {
    x.copysign(&y)
}
pub fn sin_cos(x: TwoFloat) -> (TwoFloat, TwoFloat) {
    x.sin_cos()
}
pub fn powi(x: TwoFloat, n: i32) -> TwoFloat {
    x.powi(n)
}
pub fn is_sign_positive(x: TwoFloat) -> bool {
    x.is_sign_positive()
}
pub fn is_sign_negative(x: TwoFloat) -> bool {
    x.is_sign_negative()
}
pub fn is_valid(x: TwoFloat) -> bool {
    x.is_valid()
}
pub fn div_euclid(x: TwoFloat, y: TwoFloat) -> TwoFloat {
    x.div_euclid(y)
}
pub fn rem_euclid(x: TwoFloat, y: TwoFloat) -> TwoFloat {
    x.rem_euclid(y)
}
