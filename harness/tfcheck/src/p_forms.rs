//! C10: all spellings of an operation give bit-identical results

use crate::check;
use crate::common::*;
use crate::engine::{guard, CaseWords, Ctx, Kind, Property, SubCheck};
use crate::gen::*;
use crate::inh;
use crate::p_base::nonfinite_pool;
use twofloat::TwoFloat;

type R = Result<Dd, String>;

fn g(f: impl FnOnce() -> TwoFloat) -> R {
    guard(f).map(Dd::of)
}
fn same_r(a: &R, b: &R) -> bool {
    match (a, b) {
        (Ok(x), Ok(y)) => same_dd(*x, *y),
        (Err(_), Err(_)) => true, // both spellings panic alike
        _ => false,
    }
}
fn show_r(r: &R) -> String {
    match r {
        Ok(d) => d.show(),
        Err(m) => format!("panic({m})"),
    }
}

fn operand_any(ctx: &mut Ctx) -> Dd {
    if let Some(c) = maybe_constant(ctx, 16, true) {
        return c;
    }
    if ctx.chance(1, 12) {
        if let Some(d) = derived_operand(ctx, -1000, 999) {
            return d;
        }
    }
    if ctx.chance(1, 12) {
        ctx.label("non-finite");
        let pool = nonfinite_pool();
        pool[ctx.below(pool.len() as u64) as usize].1
    } else {
        dd_exp(ctx, -1000, 999, true)
    }
}
fn pair_any(ctx: &mut Ctx) -> (Dd, Dd) {
    let a = operand_any(ctx);
    let b = if a.valid() && a.hi != 0.0 && !ctx.chance(1, 8) { related(ctx, a, -1000, 999) } else { operand_any(ctx) };
    if ctx.flag() {
        (a, b)
    } else {
        (b, a)
    }
}
fn f64_rhs(ctx: &mut Ctx, a: Dd) -> f64 {
    if ctx.chance(1, 12) {
        f64_any(ctx)
    } else if a.valid() && a.hi != 0.0 {
        f64_related(ctx, a, -1000, 999)
    } else {
        f64_exp(ctx, -1000, 999)
    }
}

const OPS: [&str; 5] = ["+", "-", "*", "/", "%"];

fn c10_forms_tt(ctx: &mut Ctx) {
    let (a, b) = pair_any(ctx);
    let op = ctx.below(5) as usize;
    a.key(ctx);
    b.key(ctx);
    ctx.key_u64(op as u64);
    note_dd(ctx, "a", a);
    note_dd(ctx, "b", b);
    ctx.note("op", || OPS[op].to_string());
    let (x, y) = (a.tf(), b.tf());
    macro_rules! forms {
        ($o:tt, $oa:tt) => {
            vec![
                ("a op b", g(|| x $o y)),
                ("&a op b", g(|| &x $o y)),
                ("a op &b", g(|| x $o &y)),
                ("&a op &b", g(|| &x $o &y)),
                ("a op= b", g(|| { let mut t = x; t $oa y; t })),
                ("a op= &b", g(|| { let mut t = x; t $oa &y; t })),
            ]
        };
    }
    let rs = match op {
        0 => forms!(+, +=),
        1 => forms!(-, -=),
        2 => forms!(*, *=),
        3 => forms!(/, /=),
        _ => forms!(%, %=),
    };
    for (n, r) in &rs[1..] {
        check!(ctx, same_r(r, &rs[0].1), "operator {}: form `{}` = {} differs from `a op b` = {} for a = {}, b = {}", OPS[op], n, show_r(r), show_r(&rs[0].1), a.show(), b.show());
    }
    // both operands the SAME object (`&x op &x`) against two distinct copies
    {
        let x2 = x;
        let (same, copies) = match op {
            0 => (g(|| &x + &x), g(|| x + x2)),
            1 => (g(|| &x - &x), g(|| x - x2)),
            2 => (g(|| &x * &x), g(|| x * x2)),
            3 => (g(|| &x / &x), g(|| x / x2)),
            _ => (g(|| &x % &x), g(|| x % x2)),
        };
        match (&same, &copies) {
            (Ok(p), Ok(q)) if !same_dd(*p, *q) && zero_sign_only(*p, *q) => {
                ctx.label("zero-sign-difference");
                ctx.known_or_fail("C10/same-object:zero-sign", format!("operator {}: `&a op &a` with one object = {} and `a op a'` with a copy = {} differ in the sign of a zero word for a = {}", OPS[op], p.show(), q.show(), a.show()));
            }
            _ => check!(ctx, same_r(&same, &copies), "operator {}: `&a op &a` with one object = {} differs from `a op a'` with a copy = {} for a = {}", OPS[op], show_r(&same), show_r(&copies), a.show()),
        }
    }
    if let Ok(r) = &rs[0].1 {
        ctx.set_nontrivial(r.finite() && r.lo != 0.0);
    }
}

fn c10_forms_tf(ctx: &mut Ctx) {
    let a = operand_any(ctx);
    let f = f64_rhs(ctx, a);
    let op = ctx.below(5) as usize;
    a.key(ctx);
    ctx.key_f64(f);
    ctx.key_u64(op as u64);
    note_dd(ctx, "a", a);
    note_f(ctx, "f", f);
    ctx.note("op", || OPS[op].to_string());
    let x = a.tf();
    macro_rules! forms {
        ($o:tt, $oa:tt) => {
            (
                vec![
                    ("a op f", g(|| x $o f)),
                    ("&a op f", g(|| &x $o f)),
                    ("a op &f", g(|| x $o &f)),
                    ("&a op &f", g(|| &x $o &f)),
                    ("a op= f", g(|| { let mut t = x; t $oa f; t })),
                    ("a op= &f", g(|| { let mut t = x; t $oa &f; t })),
                ],
                vec![
                    ("f op a", g(|| f $o x)),
                    ("&f op a", g(|| &f $o x)),
                    ("f op &a", g(|| f $o &x)),
                    ("&f op &a", g(|| &f $o &x)),
                ],
            )
        };
    }
    let (rs, ls) = match op {
        0 => forms!(+, +=),
        1 => forms!(-, -=),
        2 => forms!(*, *=),
        3 => forms!(/, /=),
        _ => forms!(%, %=),
    };
    for (n, r) in &rs[1..] {
        check!(ctx, same_r(r, &rs[0].1), "operator {}: form `{}` = {} differs from `a op f` = {} for a = {}, f = {}", OPS[op], n, show_r(r), show_r(&rs[0].1), a.show(), showf(f));
    }
    for (n, r) in &ls[1..] {
        check!(ctx, same_r(r, &ls[0].1), "operator {}: form `{}` = {} differs from `f op a` = {} for f = {}, a = {}", OPS[op], n, show_r(r), show_r(&ls[0].1), showf(f), a.show());
    }
    if let Ok(r) = &rs[0].1 {
        ctx.set_nontrivial(r.finite() && r.lo != 0.0);
    }
}

/// classification of a mismatch between two results that should be bit-identical
fn zero_sign_only(a: Dd, b: Dd) -> bool {
    let w = |x: f64, y: f64| x.to_bits() == y.to_bits() || (x.is_nan() && y.is_nan()) || (x == 0.0 && y == 0.0);
    w(a.hi, b.hi) && w(a.lo, b.lo)
}

fn ident(ctx: &mut Ctx, name: &'static str, sig: &'static str, l: R, r: R, inputs: &str) {
    match (&l, &r) {
        (Ok(x), Ok(y)) => {
            if same_dd(*x, *y) {
                return;
            }
            if zero_sign_only(*x, *y) {
                ctx.label("zero-sign-difference");
                ctx.known_or_fail(sig, format!("identity {name}: sides differ in the sign of a zero word: {} vs {} for {inputs}", x.show(), y.show()));
            } else {
                ctx.fail(format!("identity {name}: {} vs {} for {inputs}", x.show(), y.show()));
            }
        }
        (Err(_), Err(_)) => {}
        _ => ctx.fail(format!("identity {name}: {} vs {} for {inputs}", show_r(&l), show_r(&r))),
    }
}

fn c10_identities(ctx: &mut Ctx) {
    let (a, b) = pair_any(ctx);
    let f = f64_rhs(ctx, a);
    a.key(ctx);
    b.key(ctx);
    ctx.key_f64(f);
    note_dd(ctx, "a", a);
    note_dd(ctx, "b", b);
    note_f(ctx, "f", f);
    let (x, y) = (a.tf(), b.tf());
    let inp = format!("a = {}, b = {}, f = {}", a.show(), b.show(), showf(f));
    ident(ctx, "a+b == b+a", "C10/commute-add", g(|| x + y), g(|| y + x), &inp);
    ident(ctx, "x+f == f+x", "C10/commute-add-f64", g(|| x + f), g(|| f + x), &inp);
    ident(ctx, "x*f == f*x", "C10/commute-mul-f64", g(|| x * f), g(|| f * x), &inp);
    ident(ctx, "a-b == a+(-b)", "C10/sub-vs-add-neg:zero-sign", g(|| x - y), g(|| x + (-y)), &inp);
    ident(ctx, "a-b == -(b-a)", "C10/sub-antisymmetry:zero-sign", g(|| x - y), g(|| -(y - x)), &inp);
    ident(ctx, "(-a)*b == -(a*b)", "C10/mul-neg:zero-sign", g(|| (-x) * y), g(|| -(x * y)), &inp);
    ident(ctx, "-(-a) == a", "C10/double-neg", g(|| -(-x)), g(|| x), &inp);
    ident(ctx, "-a == -&a", "C10/neg-ref", g(|| -x), g(|| -&x), &inp);
    let s = Dd::of(x + y);
    ctx.set_nontrivial(s.finite() && s.lo != 0.0);
}

/// the same items behind iterator types with different `size_hint`s (shape 0..8)
pub fn shaped<'a, T: Copy + 'a>(v: &'a [T], shape: u64) -> Box<dyn Iterator<Item = T> + 'a> {
    match shape {
        0 => Box::new(v.iter().copied()),
        1 => Box::new(v.iter().copied().filter(|_| true)),
        2 => Box::new(v.iter().copied().skip_while(|_| false)),
        3 => Box::new(v.chunks(2).flat_map(|c| c.iter().copied())),
        4 => {
            let mut i = 0;
            Box::new(std::iter::from_fn(move || {
                let r = v.get(i).copied();
                i += 1;
                r
            }))
        }
        5 => {
            let m = v.len() / 2;
            Box::new(v[..m].iter().copied().chain(v[m..].iter().copied()).filter(|_| true))
        }
        6 => {
            let mut w: Vec<T> = v.to_vec();
            w.reverse();
            Box::new(w.into_iter().rev().take_while(|_| true))
        }
        _ => Box::new(v.to_vec().into_iter().filter(|_| true)),
    }
}

/// A NON-FUSED source: yields `items[..cut]`, then `None` once, then `items[cut..]`, then `None`
/// for ever.  `fold` (and therefore `sum`) must stop at the first `None` and must not touch the
/// source again: the sum is that of the first part, and the element after the gap is still there.
/// Returns (sum of the first run, what `next()` yields afterwards, sum of the rest).
pub fn non_fused_sums<T: Copy>(items: &[T], cut: usize) -> (TwoFloat, Option<T>, TwoFloat)
where
    TwoFloat: std::iter::Sum<T>,
{
    let cut = cut.min(items.len());
    let mut i = 0usize;
    let mut gap_done = false;
    let mut it = std::iter::from_fn(|| {
        if i == cut && !gap_done {
            gap_done = true;
            return None;
        }
        let r = items.get(i).copied();
        i += 1;
        r
    });
    let first: TwoFloat = (&mut it).sum();
    let after = it.next();
    let rest: TwoFloat = (&mut it).sum();
    (first, after, rest)
}

/// calls written the way users write them: `x.method(..)` with only `num_traits::Float` in scope
mod method_syntax {
    use num_traits::Float;
    use twofloat::TwoFloat;
    pub fn mul_add(x: TwoFloat, a: TwoFloat, b: TwoFloat) -> TwoFloat {
        x.mul_add(a, b)
    }
    pub fn abs_sub(x: TwoFloat, b: TwoFloat) -> TwoFloat {
        x.abs_sub(b)
    }
}

fn c10_sum(ctx: &mut Ctx) {
    let kind = ctx.below(4);
    // the shape of the iterator is an input too: exact-size slices, and adaptors whose
    // size_hint is (0, _), unknown, or wrong-looking (filter, skip_while, flat_map, from_fn, chain ...)
    let shape = ctx.below(8);
    let items: Vec<[u64; 4]> = ctx.items.to_vec();
    let mut dds = Vec::new();
    for it in &items {
        let cw = CaseWords { head: vec![it[0], it[1], it[2], it[3], it[0] ^ it[2], it[1] ^ it[3], it[0].rotate_left(17), it[1].rotate_left(29), it[2].rotate_left(7), it[3].rotate_left(43), it[0].rotate_left(5), it[3].rotate_left(11)], items: vec![] };
        let mut c2 = Ctx::new(&cw, &[]);
        dds.push(operand_any(&mut c2));
    }
    ctx.key_u64(kind);
    for d in &dds {
        d.key(ctx);
    }
    ctx.note("terms", || dds.iter().map(|d| d.show()).collect::<Vec<_>>().join(", "));
    let tfs: Vec<TwoFloat> = dds.iter().map(|d| d.tf()).collect();
    let fs: Vec<f64> = dds.iter().map(|d| d.hi).collect();
    ctx.key_u64(shape);
    ctx.note("iterator shape", || ["slice", "filter", "skip_while", "flat_map", "from_fn", "chain+filter", "rev+take_while", "Vec::into_iter.filter"][shape as usize].to_string());
    let tf_refs: Vec<&TwoFloat> = tfs.iter().collect();
    let f_refs: Vec<&f64> = fs.iter().collect();
    let got = g(|| match kind {
        0 => shaped(&tfs, shape).sum::<TwoFloat>(),
        1 => shaped(&tf_refs, shape).sum::<TwoFloat>(),
        2 => shaped(&fs, shape).sum::<TwoFloat>(),
        _ => shaped(&f_refs, shape).sum::<TwoFloat>(),
    });
    let fold = g(|| {
        let mut acc = TwoFloat::from(0.0);
        for i in 0..tfs.len() {
            acc = if kind < 2 { acc + tfs[i] } else { acc + fs[i] };
        }
        acc
    });
    check!(ctx, same_r(&got, &fold), "Iterator::sum = {} differs from the left fold with + from zero = {}", show_r(&got), show_r(&fold));
    // a source that is not fused: the fold ends at the first None and leaves the rest alone
    if !tfs.is_empty() {
        // the position of the gap is derived from the operands themselves (the choice words of
        // this case may be used up by now, and an exhausted sequence would always yield 0)
        let mix = dds.iter().fold(0x9E3779B97F4A7C15u64, |h, d| (h ^ d.hi.to_bits() ^ d.lo.to_bits().rotate_left(17)).wrapping_mul(0x100000001b3));
        let cut = ((mix >> 20) % (tfs.len() as u64 + 1)) as usize;
        let fold_range = |a: usize, b: usize| {
            g(|| {
                let mut acc = TwoFloat::from(0.0);
                for i in a..b {
                    acc = if kind < 2 { acc + tfs[i] } else { acc + fs[i] };
                }
                acc
            })
        };
        let (want_first, want_rest) = (fold_range(0, cut), fold_range((cut + 1).min(tfs.len()), tfs.len()));
        let r = guard(|| match kind {
            0 => {
                let (a, n, b) = non_fused_sums(&tfs, cut);
                (a, n.map(|t| Dd::of(t)), b)
            }
            1 => {
                let (a, n, b) = non_fused_sums(&tf_refs, cut);
                (a, n.map(|t| Dd::of(*t)), b)
            }
            2 => {
                let (a, n, b) = non_fused_sums(&fs, cut);
                (a, n.map(|f| Dd::new(f, 0.0)), b)
            }
            _ => {
                let (a, n, b) = non_fused_sums(&f_refs, cut);
                (a, n.map(|f| Dd::new(*f, 0.0)), b)
            }
        });
        match r {
            Err(m) => ctx.fail(format!("Iterator::sum over a non-fused source panicked: {m}")),
            Ok((first, after, rest)) => {
                let want_after = if cut < tfs.len() { Some(if kind < 2 { dds[cut] } else { Dd::new(dds[cut].hi, 0.0) }) } else { None };
                check!(ctx, same_r(&Ok(Dd::of(first)), &want_first), "Iterator::sum over a non-fused source (first None after {cut} of {} items) = {} but the fold of the items before the None is {}", tfs.len(), Dd::of(first).show(), show_r(&want_first));
                check!(ctx, after.map(|d| (d.hi.to_bits(), d.lo.to_bits())) == want_after.map(|d| (d.hi.to_bits(), d.lo.to_bits())), "Iterator::sum consumed elements beyond the first None of a non-fused source: next() afterwards = {:?}, expected {:?}", after.map(|d| d.show()), want_after.map(|d| d.show()));
                check!(ctx, same_r(&Ok(Dd::of(rest)), &want_rest), "a second Iterator::sum over the rest of a non-fused source = {} but the fold of the remaining items is {}", Dd::of(rest).show(), show_r(&want_rest));
            }
        }
    }
    ctx.set_nontrivial(dds.len() >= 2);
}


/// long sequences: lengths around powers of two (block/chunk boundaries of any blocked or
/// pairwise summation) up to 2^16 + 2, terms derived from the case words by a pure mixing function
pub fn c10_sum_long(ctx: &mut Ctx) {
    let kind = ctx.below(4);
    let len = match ctx.weighted(&[3, 6, 2]) { // lengths
        0 => ctx.range(0, 300) as usize,
        1 => {
            // around powers of two up to 2^16, and (1 case in 12) up to 2^21: block sizes of blocked summation
            let k = if ctx.chance(1, 12) { ctx.range(17, 21) } else { ctx.range(5, 16) };
            ((1i64 << k) + ctx.range(-2, 3)).max(0) as usize
        }
        _ => ctx.range(300, 70_000) as usize,
    };
    let s0 = ctx.word();
    let s1 = ctx.word();
    let style = ctx.below(3);
    ctx.key_u64(kind);
    ctx.key_u64(len as u64);
    ctx.key_u64(s0 ^ s1.rotate_left(17));
    ctx.key_u64(style);
    ctx.note("shape", || format!("{} terms of kind {}, style {}", len, ["TwoFloat", "&TwoFloat", "f64", "&f64"][kind as usize], style));
    let mix = |i: u64, j: u64| -> u64 {
        let mut z = s0 ^ i.wrapping_mul(0x9E3779B97F4A7C15) ^ j.wrapping_mul(0xD1B54A32D192ED03) ^ s1.rotate_left((i % 63) as u32);
        z = (z ^ (z >> 30)).wrapping_mul(0xBF58476D1CE4E5B9);
        z = (z ^ (z >> 27)).wrapping_mul(0x94D049BB133111EB);
        z ^ (z >> 31)
    };
    let mut tfs: Vec<TwoFloat> = Vec::with_capacity(len);
    let mut fs: Vec<f64> = Vec::with_capacity(len);
    for i in 0..len as u64 {
        let d = match style {
            0 => {
                // values of mixed sign and magnitude with full low words (every addition rounds)
                let cw = CaseWords { head: (0..12).map(|j| mix(i, j)).collect(), items: vec![] };
                let mut c2 = Ctx::new(&cw, &[]);
                dd_exp(&mut c2, -30, 30, true)
            }
            1 => {
                // +-1/k: slowly varying magnitudes
                let v = 1.0 / (i as f64 + 1.0) * if mix(i, 0) & 1 == 0 { 1.0 } else { -1.0 };
                Dd::of(TwoFloat::new_div(v.signum(), i as f64 + 1.0))
            }
            _ => Dd::new((mix(i, 1) >> 11) as f64 * 1e-3, 0.0),
        };
        tfs.push(d.tf());
        fs.push(d.hi);
    }
    let got = g(|| match kind {
        0 => tfs.iter().copied().sum::<TwoFloat>(),
        1 => tfs.iter().sum::<TwoFloat>(),
        2 => fs.iter().copied().sum::<TwoFloat>(),
        _ => fs.iter().sum::<TwoFloat>(),
    });
    let fold = g(|| {
        let mut acc = TwoFloat::from(0.0);
        for i in 0..len {
            acc = if kind < 2 { acc + tfs[i] } else { acc + fs[i] };
        }
        acc
    });
    check!(ctx, same_r(&got, &fold), "Iterator::sum over {} terms = {} differs from the left fold with + from zero = {}", len, show_r(&got), show_r(&fold));
    ctx.set_nontrivial(len >= 2);
}

// ---------------------------------------------------------------- trait entry points

pub type U = (&'static str, fn(TwoFloat) -> TwoFloat, fn(TwoFloat) -> TwoFloat);

pub fn unary_table() -> Vec<U> {
    use num_traits::float::FloatCore as FC;
    use num_traits::Float as F;
    use num_traits::{Inv, Signed};
    macro_rules! u {
        ($name:literal, $tr:expr, $inh:expr) => {
            ($name, $tr as fn(TwoFloat) -> TwoFloat, $inh as fn(TwoFloat) -> TwoFloat)
        };
    }
    vec![
        u!("Float::floor", |x| F::floor(x), inh::floor),
        u!("Float::ceil", |x| F::ceil(x), inh::ceil),
        u!("Float::round", |x| F::round(x), inh::round),
        u!("Float::trunc", |x| F::trunc(x), inh::trunc),
        u!("Float::fract", |x| F::fract(x), inh::fract),
        u!("Float::abs", |x| F::abs(x), inh::abs),
        u!("Float::signum", |x| F::signum(x), inh::signum),
        u!("Float::recip", |x| F::recip(x), inh::recip),
        u!("Float::sqrt", |x| F::sqrt(x), inh::sqrt),
        u!("Float::cbrt", |x| F::cbrt(x), inh::cbrt),
        u!("Float::exp", |x| F::exp(x), inh::exp),
        u!("Float::exp2", |x| F::exp2(x), inh::exp2),
        u!("Float::exp_m1", |x| F::exp_m1(x), inh::exp_m1),
        u!("Float::ln", |x| F::ln(x), inh::ln),
        u!("Float::log2", |x| F::log2(x), inh::log2),
        u!("Float::log10", |x| F::log10(x), inh::log10),
        u!("Float::ln_1p", |x| F::ln_1p(x), inh::ln_1p),
        u!("Float::sin", |x| F::sin(x), inh::sin),
        u!("Float::cos", |x| F::cos(x), inh::cos),
        u!("Float::tan", |x| F::tan(x), inh::tan),
        u!("Float::asin", |x| F::asin(x), inh::asin),
        u!("Float::acos", |x| F::acos(x), inh::acos),
        u!("Float::atan", |x| F::atan(x), inh::atan),
        u!("Float::sinh", |x| F::sinh(x), inh::sinh),
        u!("Float::cosh", |x| F::cosh(x), inh::cosh),
        u!("Float::tanh", |x| F::tanh(x), inh::tanh),
        u!("Float::asinh", |x| F::asinh(x), inh::asinh),
        u!("Float::acosh", |x| F::acosh(x), inh::acosh),
        u!("Float::atanh", |x| F::atanh(x), inh::atanh),
        u!("Float::to_degrees", |x| F::to_degrees(x), inh::to_degrees),
        u!("Float::to_radians", |x| F::to_radians(x), inh::to_radians),
        u!("Float::sin_cos.0", |x| F::sin_cos(x).0, |x| inh::sin_cos(x).0),
        u!("Float::sin_cos.1", |x| F::sin_cos(x).1, |x| inh::sin_cos(x).1),
        u!("FloatCore::floor", |x| FC::floor(x), inh::floor),
        u!("FloatCore::ceil", |x| FC::ceil(x), inh::ceil),
        u!("FloatCore::round", |x| FC::round(x), inh::round),
        u!("FloatCore::trunc", |x| FC::trunc(x), inh::trunc),
        u!("FloatCore::fract", |x| FC::fract(x), inh::fract),
        u!("FloatCore::abs", |x| FC::abs(x), inh::abs),
        u!("FloatCore::signum", |x| FC::signum(x), inh::signum),
        u!("FloatCore::recip", |x| FC::recip(x), inh::recip),
        u!("FloatCore::to_degrees", |x| FC::to_degrees(x), inh::to_degrees),
        u!("FloatCore::to_radians", |x| FC::to_radians(x), inh::to_radians),
        u!("Signed::abs", |x| Signed::abs(&x), inh::abs),
        u!("Signed::signum", |x| Signed::signum(&x), inh::signum),
        u!("Inv::inv", |x| Inv::inv(x), inh::recip),
        u!("Inv::inv(&x)", |x| Inv::inv(&x), inh::recip),
        u!("Neg::neg(&x)", |x| -&x, |x| -x),
    ]
}

/// argument suited to the function (in its natural domain most of the time)
fn arg_for(ctx: &mut Ctx, name: &str) -> Dd {
    if ctx.chance(1, 10) {
        return operand_any(ctx);
    }
    let small = name.contains("asin") || name.contains("acos") || name.contains("atanh");
    if small {
        dd_exp(ctx, -40, -1, true)
    } else if name.contains("acosh") {
        let d = dd_exp(ctx, 0, 40, false);
        if d.hi < 0.0 {
            d.neg()
        } else {
            d
        }
    } else if name.contains("exp") || name.contains("sinh") || name.contains("cosh") || name.contains("tanh") {
        dd_exp(ctx, -40, 9, true)
    } else if name.contains("sin") || name.contains("cos") || name.contains("tan") {
        dd_exp(ctx, -40, 19, true)
    } else {
        dd_exp(ctx, -200, 200, true)
    }
}

fn c10_unary(ctx: &mut Ctx) {
    let t = unary_table();
    let i = ctx.below(t.len() as u64) as usize;
    let (name, tr, inh) = t[i];
    let x = arg_for(ctx, name);
    ctx.key_u64(i as u64);
    x.key(ctx);
    ctx.note("entry", || name.to_string());
    note_dd(ctx, "x", x);
    let xt = x.tf();
    let a = g(|| tr(xt));
    let b = g(|| inh(xt));
    check!(ctx, same_r(&a, &b), "{name}({}) = {} differs from the inherent method = {}", x.show(), show_r(&a), show_r(&b));
    // boolean queries
    {
        use num_traits::float::FloatCore as FC;
        use num_traits::Float as F;
        use num_traits::Signed;
        let q = [F::is_sign_positive(xt), FC::is_sign_positive(xt), Signed::is_positive(&xt)];
        check!(ctx, q.iter().all(|&v| v == inh::is_sign_positive(xt)), "is_sign_positive spellings disagree on {}: {:?} vs {}", x.show(), q, inh::is_sign_positive(xt));
        let q = [F::is_sign_negative(xt), FC::is_sign_negative(xt), Signed::is_negative(&xt)];
        check!(ctx, q.iter().all(|&v| v == inh::is_sign_negative(xt)), "is_sign_negative spellings disagree on {}: {:?} vs {}", x.show(), q, inh::is_sign_negative(xt));
    }
    if let Ok(r) = a {
        ctx.set_nontrivial(r.finite() && r.lo != 0.0);
    }
}

fn c10_binary(ctx: &mut Ctx) {
    use num_traits::float::FloatCore as FC;
    use num_traits::Float as F;
    use num_traits::{Pow, Signed};
    let sel = ctx.below(13);
    let (a, b) = if sel >= 8 {
        // moderate magnitudes for powf/hypot/atan2/log
        // ... and the published constants themselves on either side (E as a base, PI as a leg ...)
        let a = match maybe_constant(ctx, 4, false) {
            Some(k) => k,
            None => dd_exp(ctx, -30, 30, true),
        };
        let b = match maybe_constant(ctx, 8, false) {
            Some(k) => k,
            None => {
                if ctx.chance(1, 2) && a.hi != 0.0 {
                    related(ctx, a, -30, 30)
                } else {
                    dd_exp(ctx, -4, 4, true)
                }
            }
        };
        (a, b)
    } else {
        pair_any(ctx)
    };
    let c = operand_any(ctx);
    let n32 = match ctx.weighted(&[6, 2, 1, 1]) {
        0 => ctx.range(-40, 40) as i32,
        1 => ctx.range(-70000, 70000) as i32,
        2 => i32::MAX,
        _ => i32::MIN,
    };
    a.key(ctx);
    b.key(ctx);
    c.key(ctx);
    ctx.key_u64(sel);
    ctx.key_u64(n32 as u64);
    note_dd(ctx, "a", a);
    note_dd(ctx, "b", b);
    note_dd(ctx, "c", c);
    ctx.note("n", || n32.to_string());
    let (x, y, z) = (a.tf(), b.tf(), c.tf());
    let mut pairs: Vec<(&'static str, R, R)> = Vec::new();
    match sel {
        0 => {
            pairs.push(("Float::min", g(|| F::min(x, y)), g(|| inh::min(x, y))));
            pairs.push(("FloatCore::min", g(|| FC::min(x, y)), g(|| inh::min(x, y))));
            pairs.push(("Float::max", g(|| F::max(x, y)), g(|| inh::max(x, y))));
            pairs.push(("FloatCore::max", g(|| FC::max(x, y)), g(|| inh::max(x, y))));
        }
        1 => {
            pairs.push(("Float::mul_add(a,b) vs self*a+b", g(|| F::mul_add(x, y, z)), g(|| x * y + z)));
            // the METHOD-CALL spelling with the trait in scope: an inherent method of the same name
            // would silently take precedence over the trait method
            pairs.push(("x.mul_add(a, b) (method syntax, num_traits::Float in scope) vs self*a+b", g(|| method_syntax::mul_add(x, y, z)), g(|| x * y + z)));
            pairs.push(("x.abs_sub(b) (method syntax) vs (a-b).abs()", g(|| method_syntax::abs_sub(x, y)), g(|| inh::abs(x - y))));
        }
        2 => {
            pairs.push(("Float::abs_sub vs (a-b).abs()", g(|| F::abs_sub(x, y)), g(|| inh::abs(x - y))));
            pairs.push(("Signed::abs_sub vs (a-b).abs()", g(|| Signed::abs_sub(&x, &y)), g(|| inh::abs(x - y))));
        }
        3 => {
            pairs.push(("Float::powi", g(|| F::powi(x, n32)), g(|| inh::powi(x, n32))));
            pairs.push(("FloatCore::powi", g(|| FC::powi(x, n32)), g(|| inh::powi(x, n32))));
        }
        4 => {
            let n = n32;
            pairs.push(("Pow<i32>", g(|| Pow::pow(x, n)), g(|| inh::powi(x, n))));
            pairs.push(("Pow<&i32>", g(|| Pow::pow(x, &n)), g(|| inh::powi(x, n))));
            pairs.push(("&Pow<i32>", g(|| Pow::pow(&x, n)), g(|| inh::powi(x, n))));
            pairs.push(("&Pow<&i32>", g(|| Pow::pow(&x, &n)), g(|| inh::powi(x, n))));
        }
        5 => {
            let n = n32 as i16;
            pairs.push(("Pow<i16>", g(|| Pow::pow(x, n)), g(|| inh::powi(x, n as i32))));
            pairs.push(("Pow<&i16>", g(|| Pow::pow(x, &n)), g(|| inh::powi(x, n as i32))));
            pairs.push(("&Pow<i16>", g(|| Pow::pow(&x, n)), g(|| inh::powi(x, n as i32))));
            pairs.push(("&Pow<&i16>", g(|| Pow::pow(&x, &n)), g(|| inh::powi(x, n as i32))));
            let m = n32 as u16;
            pairs.push(("Pow<u16>", g(|| Pow::pow(x, m)), g(|| inh::powi(x, m as i32))));
            pairs.push(("Pow<&u16>", g(|| Pow::pow(x, &m)), g(|| inh::powi(x, m as i32))));
            pairs.push(("&Pow<u16>", g(|| Pow::pow(&x, m)), g(|| inh::powi(x, m as i32))));
            pairs.push(("&Pow<&u16>", g(|| Pow::pow(&x, &m)), g(|| inh::powi(x, m as i32))));
        }
        6 => {
            let n = n32 as i8;
            pairs.push(("Pow<i8>", g(|| Pow::pow(x, n)), g(|| inh::powi(x, n as i32))));
            pairs.push(("Pow<&i8>", g(|| Pow::pow(x, &n)), g(|| inh::powi(x, n as i32))));
            pairs.push(("&Pow<i8>", g(|| Pow::pow(&x, n)), g(|| inh::powi(x, n as i32))));
            pairs.push(("&Pow<&i8>", g(|| Pow::pow(&x, &n)), g(|| inh::powi(x, n as i32))));
            let m = n32 as u8;
            pairs.push(("Pow<u8>", g(|| Pow::pow(x, m)), g(|| inh::powi(x, m as i32))));
            pairs.push(("Pow<&u8>", g(|| Pow::pow(x, &m)), g(|| inh::powi(x, m as i32))));
            pairs.push(("&Pow<u8>", g(|| Pow::pow(&x, m)), g(|| inh::powi(x, m as i32))));
            pairs.push(("&Pow<&u8>", g(|| Pow::pow(&x, &m)), g(|| inh::powi(x, m as i32))));
        }
        7 => {
            use num_traits::{One, Zero};
            pairs.push(("Zero::zero", g(<TwoFloat as Zero>::zero), g(|| TwoFloat::from(0.0))));
            pairs.push(("One::one", g(<TwoFloat as One>::one), g(|| TwoFloat::from(1.0))));
            let iz = Zero::is_zero(&x);
            check!(ctx, iz == (x == TwoFloat::from(0.0)), "Zero::is_zero({}) = {}", a.show(), iz);
            // One::is_one (a provided method): the operator it stands for is `== 1`
            let io = One::is_one(&x);
            check!(ctx, io == (x == TwoFloat::from(1.0)), "One::is_one({}) = {} but (x == 1) = {}", a.show(), io, x == TwoFloat::from(1.0));
            // Float::copysign is a PROVIDED method of num_traits: it still is an entry point with an inherent counterpart
            pairs.push(("Float::copysign", g(|| F::copysign(x, y)), g(|| inh::copysign(x, y))));
            pairs.push(("FloatCore::epsilon", g(<TwoFloat as FC>::epsilon), g(|| TwoFloat::EPSILON)));
            pairs.push(("Float::epsilon", g(<TwoFloat as F>::epsilon), g(|| TwoFloat::EPSILON)));
            pairs.push(("Float::infinity", g(<TwoFloat as F>::infinity), g(|| TwoFloat::INFINITY)));
            pairs.push(("Float::neg_infinity", g(<TwoFloat as F>::neg_infinity), g(|| TwoFloat::NEG_INFINITY)));
            pairs.push(("Float::nan", g(<TwoFloat as F>::nan), g(|| TwoFloat::NAN)));
            pairs.push(("Float::min_positive_value", g(<TwoFloat as F>::min_positive_value), g(|| TwoFloat::MIN_POSITIVE)));
        }
        8 => {
            pairs.push(("Float::powf", g(|| F::powf(x, y)), g(|| inh::powf(x, y))));
            pairs.push(("Pow<TwoFloat>", g(|| Pow::pow(x, y)), g(|| inh::powf(x, y))));
            pairs.push(("Pow<&TwoFloat>", g(|| Pow::pow(x, &y)), g(|| inh::powf(x, y))));
            pairs.push(("&Pow<TwoFloat>", g(|| Pow::pow(&x, y)), g(|| inh::powf(x, y))));
            pairs.push(("&Pow<&TwoFloat>", g(|| Pow::pow(&x, &y)), g(|| inh::powf(x, y))));
        }
        9 => {
            let f = b.hi;
            pairs.push(("Pow<f64>", g(|| Pow::pow(x, f)), g(|| inh::powf(x, TwoFloat::from(f)))));
            pairs.push(("Pow<&f64>", g(|| Pow::pow(x, &f)), g(|| inh::powf(x, TwoFloat::from(f)))));
            pairs.push(("&Pow<f64>", g(|| Pow::pow(&x, f)), g(|| inh::powf(x, TwoFloat::from(f)))));
            pairs.push(("&Pow<&f64>", g(|| Pow::pow(&x, &f)), g(|| inh::powf(x, TwoFloat::from(f)))));
        }
        10 => pairs.push(("Float::hypot", g(|| F::hypot(x, y)), g(|| inh::hypot(x, y)))),
        11 => pairs.push(("Float::atan2", g(|| F::atan2(x, y)), g(|| inh::atan2(x, y)))),
        _ => {
            // bases: generic, and the published constants themselves (E, LN_2, 2*..., ...)
            let base = match maybe_constant(ctx, 3, false) {
                Some(c) => c.tf(),
                None => y,
            };
            pairs.push(("Float::log", g(|| F::log(inh::abs(x), inh::abs(base))), g(|| inh::log(inh::abs(x), inh::abs(base)))));
        }
    }
    let mut nt = false;
    for (name, l, r) in &pairs {
        check!(ctx, same_r(l, r), "{name}: trait entry point = {} differs from the inherent counterpart = {} (a = {}, b = {}, c = {}, n = {})", show_r(l), show_r(r), a.show(), b.show(), c.show(), n32);
        if let Ok(d) = l {
            nt = nt || (d.finite() && d.lo != 0.0);
        }
    }
    ctx.set_nontrivial(nt);
}

pub fn c10() -> Property {
    let gsc = |name, eval, words, quick, thorough| SubCheck { name, kind: Kind::Generated { words, max_items: 0 }, eval, quick, thorough };
    Property {
        id: "C10",
        rule: "operand pairs as in C03 (valid, constructed relations) plus 1/12 non-finite values from the API pool, f64 right-hand sides of every class; operator chosen per case; trait entry point chosen per case from a table of 48 unary and 13 groups of binary/constant entry points; non-trivial = the compared result is finite with a non-zero low word (sum: at least two terms); distinct = distinct (entry, operand bits)",
        assumptions: vec![],
        subchecks: vec![
            gsc("forms_tt", c10_forms_tt, 48, 800_000, 20_000_000),
            gsc("forms_tf_ft", c10_forms_tf, 48, 800_000, 20_000_000),
            gsc("identities", c10_identities, 64, 800_000, 20_000_000),
            SubCheck { name: "sum", kind: Kind::Generated { words: 2, max_items: 30 }, eval: c10_sum, quick: 60_000, thorough: 2_000_000 },
            gsc("sum_long", c10_sum_long, 12, 1_500, 40_000),
            gsc("traits_unary", c10_unary, 48, 800_000, 20_000_000),
            gsc("traits_binary", c10_binary, 96, 400_000, 10_000_000),
        ],
    }
}

/// Every num_traits route of the unary function `fname` (Float::fname, FloatCore::fname, ...) must
/// return the words `r` the inherent method returned for `x` (used by the per-function checks so
/// that a route that stops delegating is seen by the property of that function as well as by C10).
pub fn routes_agree(ctx: &mut Ctx, fname: &str, x: Dd, r: Dd) {
    static T: std::sync::OnceLock<Vec<U>> = std::sync::OnceLock::new();
    let t = T.get_or_init(unary_table);
    let xt = x.tf();
    for (name, tr, _) in t.iter() {
        if name.rsplit("::").next() == Some(fname) {
            match guard(|| tr(xt)) {
                Ok(v) => {
                    let d = Dd::of(v);
                    check!(ctx, same_dd(d, r), "{name}({}) = {} differs from the inherent {fname} = {}", x.show(), d.show(), r.show());
                }
                Err(m) => ctx.fail(format!("{name}({}) panicked: {m}", x.show())),
            }
        }
    }
}
