//! Shared pieces of the elementary-function checks (C14-C18): argument strata, the
//! high-precision reference with its dual-precision self-check, bound evaluation.

use crate::engine::Ctx;
use crate::gen::*;
use oracle::big::pow2_f64;
use oracle::{Big, Hp};
use std::sync::atomic::{AtomicBool, Ordering};

pub static ORACLE_FAULT: AtomicBool = AtomicBool::new(false);

pub const W: u64 = 384;
pub const W2: u64 = 512;

/// Reference value at 384 bits; for a deterministic 1-in-64 subset of the cases it is
/// recomputed at 512 bits and both must agree to 2^-300 relative (else: oracle fault,
/// reported as exit 2, never as a violation).
pub fn reference(ctx: &mut Ctx, f: impl Fn(&Hp) -> Big) -> Big {
    let r = f(&Hp::new(W));
    if ctx.key % 64 == 0 {
        let r2 = f(&Hp::new(W2));
        let d = r.sub(&r2).abs();
        let ok = if r2.is_zero() { d.is_zero() } else { d.is_zero() || d.msb_exp() - r2.msb_exp() < -300 };
        if !ok {
            ORACLE_FAULT.store(true, Ordering::SeqCst);
            eprintln!("ORACLE-FAULT: 384-bit and 512-bit references disagree: {:e} vs {:e}", r.approx(), r2.approx());
        }
    }
    r
}

/// |got - ref| <= rel*|ref| + abs  (+ 2^-250 |ref| oracle slack).  Records log2(err/bound).
pub fn bounded(ctx: &mut Ctx, what: &str, got: Dd, refv: &Big, rel: &Big, abs: &Big) -> bool {
    if !got.valid() {
        ctx.fail(format!("{what}: result {} is not a valid double-double (reference ~{:e})", got.show(), refv.approx()));
        return false;
    }
    let err = got.big().sub(refv).abs();
    let bound = rel.add(&Big::pow2(-250)).mul(&refv.abs()).add(abs);
    if err.is_zero() {
        return true;
    }
    if bound.is_zero() {
        ctx.fail(format!("{what}: got {} but the reference is exactly {:e}", got.show(), refv.approx()));
        return false;
    }
    let l = err.log2_abs() - bound.log2_abs();
    ctx.ratio_log2(l);
    if err > bound {
        ctx.fail(format!(
            "{what}: |result - reference| = 2^{:.2} exceeds the allowed 2^{:.2} (result {}, reference ~{:e})",
            err.log2_abs(),
            bound.log2_abs(),
            got.show(),
            refv.approx()
        ));
        return false;
    }
    true
}

pub fn p2(k: i64) -> Big {
    Big::pow2(k)
}

/// Argument strata for a function: pivots (range switches, table grid points, domain
/// edges) with small offsets, log-uniform magnitudes, uniform values.
pub struct Strata<'a> {
    pub pivots: &'a [f64],
    /// exponent range for the log-uniform part
    pub emin: i64,
    pub emax: i64,
    /// uniform part: [-umax, umax] (or [0, umax] when positive_only)
    pub umax: f64,
    pub positive_only: bool,
}

pub fn arg(ctx: &mut Ctx, s: &Strata) -> Dd {
    if ctx.chance(1, 12) {
        if let Some(d) = derived_operand(ctx, s.emin, s.emax) {
            if d.hi != 0.0 && (!s.positive_only || d.hi > 0.0) {
                return d;
            }
        }
    }
    if ctx.chance(1, 12) {
        if let Some(hi) = source_literal(ctx, s.emin, s.emax) {
            let hi = if s.positive_only { hi.abs() } else { hi };
            return if ctx.chance(1, 3) { Dd::new(hi, 0.0) } else { dd_at(ctx, hi) };
        }
    }
    if ctx.chance(1, 14) {
        if let Some(hi) = format_parameter_multiple(ctx, s.emin, s.emax) {
            let hi = if s.positive_only { hi.abs() } else { hi };
            return if ctx.chance(1, 3) { Dd::new(hi, 0.0) } else { dd_at(ctx, hi) };
        }
    }
    let c = ctx.weighted(&[5, 5, 5]);
    let hi = match c {
        0 => {
            ctx.label("arg:log-uniform");
            let x = f64_exp(ctx, s.emin, s.emax);
            x
        }
        1 => {
            ctx.label("arg:uniform");
            let u = ctx.bits(53) as f64 / 9007199254740992.0;
            let x = u * s.umax;
            let x = if x == 0.0 { s.umax / 3.0 } else { x };
            if ctx.flag() {
                -x
            } else {
                x
            }
        }
        _ => {
            ctx.label("arg:pivot");
            if s.pivots.is_empty() {
                f64_exp(ctx, s.emin, s.emax)
            } else {
                let p = s.pivots[ctx.below(s.pivots.len() as u64) as usize];
                pivot_near(ctx, p)
            }
        }
    };
    let hi = if s.positive_only { hi.abs() } else { hi };
    let hi = if hi == 0.0 || !hi.is_finite() { 1.0 } else { hi };
    dd_at(ctx, hi)
}

/// Arguments at which a result reaches a limit of the FORMAT: m * c (and m * c / 2, m / c) with c
/// one of ln 2, ln 10, log2 e, log10 2, pi and m a parameter of binary64 / double-double (24, 52,
/// 53, 54, 64, 105..108, 112, 113, 128, 1022..1024, 1074, 1075) or any whole number up to 1100:
/// there e^x, 2^x, 10^x cross 2^m (saturation points of tanh, the last argument for which a second
/// exponential still matters in cosh / sinh, overflow and underflow thresholds, ...).  Such a
/// threshold is usually COMPUTED in the source (`0.5 * 112.0 * LN_2.hi`), so the literal dictionary
/// does not contain it.  The product is formed in f64 the way source code would form it.
pub fn format_parameter_multiple(ctx: &mut Ctx, emin: i64, emax: i64) -> Option<f64> {
    const C: [f64; 6] = [
        std::f64::consts::LN_2,
        std::f64::consts::LN_2,
        std::f64::consts::LN_10,
        std::f64::consts::LOG2_E,
        std::f64::consts::LOG10_2,
        std::f64::consts::PI,
    ];
    const M: [f64; 24] = [24.0, 52.0, 53.0, 54.0, 64.0, 105.0, 106.0, 107.0, 108.0, 112.0, 113.0, 128.0, 1021.0, 1022.0, 1023.0, 1024.0, 1074.0, 1075.0, 11.0, 8.0, 16.0, 32.0, 63.0, 127.0];
    let c = C[ctx.below(6) as usize];
    let m = if ctx.flag() { M[ctx.below(24) as usize] } else { ctx.range(1, 1100) as f64 };
    let x = match ctx.below(5) {
        0 => m * c,
        1 => (0.5 * m) * c,
        2 => 0.5 * (m * c),
        3 => m / c,
        _ => (m * c) * 0.25,
    };
    let x = match ctx.below(4) {
        0 | 1 => x,
        2 => step(x, ctx.range(-2, 2)),
        _ => -x,
    };
    let x = if ctx.chance(1, 4) { -x } else { x };
    let e = exponent(x);
    if x.is_finite() && x != 0.0 && e >= emin && e <= emax {
        ctx.label("arg:format-parameter-multiple");
        Some(x)
    } else {
        None
    }
}

/// p, p +- k ulps, p (1 +- 2^-j)
pub fn pivot_near(ctx: &mut Ctx, p: f64) -> f64 {
    let c = ctx.weighted(&[2, 4, 4, 2]);
    let r = match c {
        0 => p,
        1 => step(p, ctx.range(-3, 3)),
        2 => {
            let j = ctx.range(1, 52);
            let d = p * pow2_f64(-j);
            if ctx.flag() {
                p + d
            } else {
                p - d
            }
        }
        _ => {
            let k = ctx.range(-1_000_000, 1_000_000);
            f64::from_bits((p.to_bits() as i64 + k) as u64)
        }
    };
    if r.is_finite() && r != 0.0 && (r > 0.0) == (p > 0.0) {
        r
    } else {
        p
    }
}

/// the forced (exact-grid) argument if one is set, else the generated one
pub fn forced_or(ctx: &mut Ctx, x: Dd) -> Dd {
    match ctx.forced {
        Some((hi, lo)) => {
            ctx.labels.retain(|l| !l.starts_with("arg:"));
            ctx.label("arg:exact-grid");
            Dd::new(hi, lo)
        }
        None => x,
    }
}

/// i -> +-(i/2)/den, zero low word; sets it as the forced argument
pub fn force_grid(ctx: &mut Ctx, den: f64, positive_only: bool) -> u64 {
    let i = ctx.word();
    let hi = if positive_only { (i + 1) as f64 / den } else if i & 1 == 1 { -(((i >> 1) + 1) as f64) / den } else { ((i >> 1) + 1) as f64 / den };
    ctx.forced = Some((hi, 0.0));
    i
}

/// ANY valid double-double: every binade from the subnormals to f64::MAX, zero, the published
/// constants with MAX/MIN, results of earlier calls, and - because the range limits of the
/// exponential family live there - a dense stratum over 500 <= |x| <= 1100 with its pivots.
/// Used by the "no function of the family panics" clauses, which quantify over all valid x.
pub fn any_valid(ctx: &mut Ctx) -> Dd {
    if let Some(c) = maybe_constant(ctx, 16, true) {
        return c;
    }
    if ctx.chance(1, 10) {
        if let Some(hi) = source_literal(ctx, -1022, 1023) {
            return if ctx.chance(1, 3) { Dd::new(hi, 0.0) } else { dd_at(ctx, hi) };
        }
    }
    if ctx.chance(1, 14) {
        if let Some(hi) = format_parameter_multiple(ctx, -1022, 1023) {
            return if ctx.chance(1, 3) { Dd::new(hi, 0.0) } else { dd_at(ctx, hi) };
        }
    }
    match ctx.weighted(&[5, 4, 3, 1, 1, 1]) {
        0 => {
            ctx.label("arg:whole-range");
            dd_closed(ctx, -1022, 1023, true)
        }
        1 => {
            ctx.label("arg:limit-region");
            let u = ctx.bits(53) as f64 / 9007199254740992.0;
            let x = 500.0 + 600.0 * u;
            let sg = ctx.flag();
            dd_at(ctx, if sg { -x } else { x })
        }
        2 => {
            ctx.label("arg:pivot");
            const P: [f64; 24] = [
                709.0, 709.75, 709.78, 710.0, 719.75, 720.0, 744.0, 745.0, 745.13, 750.0, 1022.0, 1023.0, 1024.0, 1074.0, 1075.0, 1080.0, 600.0, 700.0, 354.0, 88.0, 22.0, 1e10, 9007199254740992.0,
                1.0,
            ];
            let p = P[ctx.below(P.len() as u64) as usize];
            let p = if ctx.flag() { -p } else { p };
            let hi = pivot_near(ctx, p);
            dd_at(ctx, hi)
        }
        3 => {
            ctx.label("arg:subnormal-high-word");
            let m = ctx.bits(52).max(1);
            let hi = f64::from_bits(((ctx.flag() as u64) << 63) | (m >> ctx.below(52)));
            Dd::new(if hi == 0.0 { f64::from_bits(1) } else { hi }, 0.0)
        }
        4 => derived_operand(ctx, -1000, 999).unwrap_or(Dd::new(1.0, 0.0)),
        _ => {
            ctx.label("zero");
            Dd::new(if ctx.flag() { -0.0 } else { 0.0 }, 0.0)
        }
    }
}

/// operand domain of C01's shape rule (hi = 0 or 2^-1000 <= |hi| <= 2^1000)
pub fn in_c01_operand_domain(x: Dd) -> bool {
    x.hi == 0.0 || (x.hi.abs() >= pow2_f64(-1000) && x.hi.abs() <= pow2_f64(1000))
}

/// History independence: one call in four is preceded by a call of the same function on a DECOY
/// derived from x (same high word with another low word, the same mask XORed into both words, the
/// words swapped in sign, -x).  The value returned for x is then judged by the ordinary oracle,
/// so a result that depends on the previous call (a cache keyed by part of the argument or by a
/// weak hash of it) shows up as an accuracy / exactness violation.
pub fn decoy_call(ctx: &mut Ctx, x: Dd, f: fn(twofloat::TwoFloat) -> twofloat::TwoFloat) {
    if !ctx.chance(1, 4) || !x.finite() {
        return;
    }
    let d = match ctx.below(5) {
        0 if x.hi != 0.0 && x.hi.is_normal() => dd_at(ctx, x.hi),
        1 => {
            let m = 1u64 << ctx.below(52);
            Dd::new(f64::from_bits(x.hi.to_bits() ^ m), f64::from_bits(x.lo.to_bits() ^ m))
        }
        2 => {
            let m = ctx.bits(40);
            Dd::new(f64::from_bits(x.hi.to_bits() ^ m), f64::from_bits(x.lo.to_bits() ^ m))
        }
        3 => x.neg(),
        _ => Dd::new(x.hi, -x.lo),
    };
    if d.valid() && !(d.hi == x.hi && d.lo == x.lo) {
        ctx.label("decoy-call-first");
        let _ = crate::engine::guard(|| f(d.tf()));
    }
}
