//! Oracle helpers shared by the property modules.

use crate::engine::{guard, Ctx};
use crate::gen::{showf, Dd};
use oracle::Big;
use twofloat::TwoFloat;

/// 2^-106
pub fn u2() -> Big {
    Big::pow2(-106)
}
/// k * 2^-106
pub fn ku2(k: u64) -> Big {
    Big::from_u64(k).mul_pow2(-106)
}
/// 3*2^-106 + 13*2^-159 (Joldes et al., Alg. 6)
pub fn beta_add() -> Big {
    Big::from_u64(3).mul_pow2(-106).add(&Big::from_u64(13).mul_pow2(-159))
}

/// C01 oracle: a finite high word must come with a finite low word and hi == RN(hi+lo)
/// (hardware evaluation, cross-checked with Big's rounding).
pub fn normalised_or_nonfinite(r: Dd) -> bool {
    if !r.hi.is_finite() {
        return true;
    }
    if !r.lo.is_finite() {
        return false;
    }
    let hw = r.hi + r.lo == r.hi;
    let big = Big::from_pair(r.hi, r.lo).to_f64_rn() == r.hi;
    assert_eq!(hw, big, "validity oracles disagree on {:?}", r);
    hw
}

pub fn check_valid(ctx: &mut Ctx, what: &str, r: Dd) -> bool {
    if r.valid() {
        true
    } else {
        ctx.fail(format!("{what}: result {} is not a valid double-double", r.show()));
        false
    }
}

/// Runs an operation of the code under test; a panic is a violation.
pub fn run_tf(ctx: &mut Ctx, what: &str, f: impl FnOnce() -> TwoFloat) -> Option<Dd> {
    match guard(f) {
        Ok(t) => Some(Dd::of(t)),
        Err(msg) => {
            ctx.fail(format!("{what}: panicked: {msg}"));
            None
        }
    }
}

/// |got - exact| <= beta * |scale|  (all exact).  Records log2(err / bound).
pub fn within(ctx: &mut Ctx, what: &str, got: &Big, exact: &Big, beta: &Big, scale: &Big) -> bool {
    let err = got.sub(exact).abs();
    let bound = beta.mul(&scale.abs());
    if err.is_zero() {
        if !bound.is_zero() {
            ctx.ratio_log2(-300.0);
        }
        return true;
    }
    let ok = err <= bound;
    if !bound.is_zero() {
        ctx.ratio_log2(err.log2_abs() - bound.log2_abs());
    }
    if !ok {
        let rel = if scale.is_zero() { f64::INFINITY } else { err.log2_abs() - scale.log2_abs() };
        ctx.fail(format!(
            "{what}: error 2^{:.2} relative to the reference exceeds the bound 2^{:.2} (got ~{:e}, exact ~{:e})",
            rel,
            beta.log2_abs(),
            got.approx(),
            exact.approx()
        ));
    }
    ok
}

/// relative-error form of `within`: |got - exact| <= beta |exact|
pub fn within_rel(ctx: &mut Ctx, what: &str, got: Dd, exact: &Big, beta: &Big) -> bool {
    if !got.finite() {
        ctx.fail(format!("{what}: non-finite result {} (exact ~{:e})", got.show(), exact.approx()));
        return false;
    }
    within(ctx, what, &got.big(), exact, beta, exact)
}

pub fn both_zero(r: Dd) -> bool {
    r.hi == 0.0 && r.lo == 0.0
}

pub fn note_dd(ctx: &mut Ctx, name: &str, d: Dd) {
    ctx.note(name, || d.show());
}
pub fn note_f(ctx: &mut Ctx, name: &str, x: f64) {
    ctx.note(name, || showf(x));
}
