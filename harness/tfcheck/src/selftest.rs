//! `tfcheck selftest`: validates the oracle before any property result is believed.
use oracle::selftest as st;

pub fn run(verif_dir: &str, quick: bool) -> i32 {
    let seed: u64 = std::env::var("VERIF_SEED").ok().and_then(|s| s.trim().parse::<i64>().ok()).map(|x| x as u64).unwrap_or(1);
    match st::hw_differential(seed, if quick { 100_000 } else { 400_000 }) {
        Ok(n) => println!("selftest: Big vs hardware IEEE arithmetic: {n} comparisons agree"),
        Err(e) => {
            println!("ORACLE-FAULT {e}");
            return 2;
        }
    }
    let path = format!("{verif_dir}/golden/vectors.txt");
    let text = match std::fs::read_to_string(&path) {
        Ok(t) => t,
        Err(e) => {
            println!("ORACLE-FAULT cannot read {path}: {e}");
            return 2;
        }
    };
    for (w, tol) in [(384u64, 300i64), (512, 420)] {
        if quick && w != 384 {
            continue;
        }
        match st::golden(&text, w, tol) {
            Ok(s) => println!("selftest: Hp(w={w}) vs mpmath: {} vectors agree to 2^-{tol} (worst 2^{:.1})", s.vectors, s.worst_log2_rel),
            Err(e) => {
                println!("ORACLE-FAULT {e}");
                return 2;
            }
        }
    }
    0
}
