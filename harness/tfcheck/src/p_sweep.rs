//! C01 (every result normalised or non-finite: single-call sweep + operation programs)
//! and C11 (default-features build vs no_std/libm build: bit-identical results; fma correctly rounded)

use crate::api::{fma_hooks, hooked_build, nostd_build, std_build, Args, Entry, Out, Uses};
use crate::check;
use crate::common::*;
use crate::engine::{guard, CaseWords, Ctx, Kind, Property, SubCheck};
use crate::fcommon::pivot_near;
use crate::gen::*;
use crate::p_round::x_round;
use oracle::big::pow2_f64;
use oracle::Big;
use std::sync::OnceLock;

fn std_table() -> &'static Vec<Entry> {
    static T: OnceLock<Vec<Entry>> = OnceLock::new();
    T.get_or_init(std_build::table)
}
fn hooked_table() -> &'static Vec<Entry> {
    static T: OnceLock<Vec<Entry>> = OnceLock::new();
    T.get_or_init(hooked_build::table)
}
fn nostd_table() -> &'static Vec<Entry> {
    static T: OnceLock<Vec<Entry>> = OnceLock::new();
    T.get_or_init(nostd_build::table)
}

const PIVOTS: [f64; 28] = [
    709.0, -709.0, 710.0, -745.0, -1074.0, -1022.0, -1020.36, -1050.0, 1023.0, 1024.0, 0.25, -0.25, 0.5, -0.5, 1.0, -1.0, 0.75, 1.5,
    std::f64::consts::FRAC_PI_4, std::f64::consts::FRAC_PI_2, std::f64::consts::PI, 0.4375, 2.4375, 9007199254740992.0, 4503599627370496.0, 32.25, 1e-300, 1e300,
];

/// operand in the C01 domain: valid, hi = 0 or 2^-1000 <= |hi| <= 2^1000
fn operand(ctx: &mut Ctx) -> Dd {
    if let Some(c) = maybe_constant(ctx, 24, false) {
        return c;
    }
    if ctx.chance(1, 12) {
        if let Some(d) = derived_operand(ctx, -1000, 999) {
            return d;
        }
    }
    let c = ctx.weighted(&[5, 5, 4, 3, 2, 1]);
    let d = match c {
        0 => dd_closed(ctx, -1000, 1000, true),
        1 => dd_exp(ctx, -40, 40, true),
        2 => {
            ctx.label("arg:pivot");
            let p = PIVOTS[ctx.below(PIVOTS.len() as u64) as usize];
            let hi = pivot_near(ctx, p);
            dd_at(ctx, hi)
        }
        3 => x_round(ctx),
        4 => {
            // the bottom of the exponent range of exp2 / exp
            ctx.label("arg:deep-negative");
            let u = ctx.bits(53) as f64 / 9007199254740992.0;
            let hi = if ctx.flag() { -1080.0 + u * 90.0 } else { -750.0 + u * 60.0 };
            dd_at(ctx, hi)
        }
        _ => {
            ctx.label("arg:edge-exponent");
            let e = if ctx.flag() { 999 - ctx.range(0, 2) } else { -1000 + ctx.range(0, 2) };
            let m = mantissa(ctx);
            let hi = f64::from_bits(((ctx.flag() as u64) << 63) | (((e + 1023) as u64) << 52) | m);
            dd_at(ctx, hi)
        }
    };
    if d.hi != 0.0 && (d.hi.abs() < pow2_f64(-1000) || d.hi.abs() > pow2_f64(1000)) {
        dd_exp(ctx, -1000, 999, false)
    } else {
        d
    }
}

fn operand_f64(ctx: &mut Ctx, a: Dd) -> f64 {
    let c = ctx.weighted(&[4, 4, 2, 1, 2]);
    if c == 4 && a.hi != 0.0 && a.hi.is_finite() {
        // a second word at / around the overlap thresholds of a.hi (for the checked constructors)
        ctx.label("arg:overlap-threshold");
        let e = exponent(a.hi);
        let k = e - 53 - ctx.range(0, 2);
        if k >= -1074 {
            let t = pow2_f64(k);
            let v = match ctx.below(5) {
                0 => t,
                1 => next_up(t),
                2 => next_down(t),
                3 => t * 1.5,
                _ => t * 0.75,
            };
            return if ctx.flag() { -v } else { v };
        }
    }
    let r = match c {
        0 => f64_exp(ctx, -1000, 999),
        1 => {
            if a.hi != 0.0 {
                f64_related(ctx, a, -1000, 999)
            } else {
                f64_exp(ctx, -40, 40)
            }
        }
        2 => {
            let p = PIVOTS[ctx.below(PIVOTS.len() as u64) as usize];
            pivot_near(ctx, p)
        }
        _ => {
            if ctx.flag() {
                0.0
            } else {
                -0.0
            }
        }
    };
    if r != 0.0 && (exponent(r) < -1000 || exponent(r) > 999) {
        1.5
    } else {
        r
    }
}

fn int_arg(ctx: &mut Ctx) -> i128 {
    let c = ctx.weighted(&[4, 4, 2, 2]);
    let raw = ((ctx.word() as u128) << 64) | ctx.word() as u128;
    match c {
        0 => {
            let len = ctx.range(1, 128) as u32;
            (raw >> (128 - len)) as i128
        }
        1 => {
            // tie family: m 2^k + 2^(k-1) - delta
            ctx.label("int:tie-family");
            let k = ctx.range(1, 74) as u32;
            let m = ((1u128 << 52) | (raw >> 76)) as u128;
            let m = if ctx.flag() { m | 1 } else { m & !1 };
            let delta = ctx.range(-3, 3) as i128;
            let v = ((m << k) + (1u128 << (k - 1))) as i128 - delta;
            if ctx.flag() {
                v.wrapping_neg()
            } else {
                v
            }
        }
        2 => [i128::MAX, i128::MIN, -1, 0, 1, u64::MAX as i128, i64::MIN as i128, i64::MAX as i128][ctx.below(8) as usize].wrapping_add(ctx.range(-2, 2) as i128),
        _ => raw as i128,
    }
}

fn small_n(ctx: &mut Ctx) -> i32 {
    match ctx.weighted(&[6, 2, 1, 1]) {
        0 => ctx.range(-40, 40) as i32,
        1 => ctx.range(-5000, 5000) as i32,
        2 => i32::MAX - ctx.range(0, 1) as i32,
        _ => i32::MIN + ctx.range(0, 1) as i32,
    }
}

fn gen_args(ctx: &mut Ctx) -> Args {
    let mut a = operand(ctx);
    let mut b = if ctx.chance(1, 3) && a.hi != 0.0 { related(ctx, a, -1000, 999) } else { operand(ctx) };
    if ctx.chance(1, 16) && a.hi != 0.0 && a.hi.is_finite() {
        // in-domain operands whose PRODUCT (or quotient) lands in the last normal binades, where
        // error terms fall on the subnormal grid; single-word operands half of the time
        ctx.label("rel:result-at-the-bottom");
        let t = ctx.range(-1022, -990);
        let eb = if ctx.flag() { t - exponent(a.hi) } else { exponent(a.hi) - t };
        if (-1000..=999).contains(&eb) {
            let hi = f64::from_bits(((ctx.flag() as u64) << 63) | (((eb + 1023) as u64) << 52) | mantissa(ctx));
            b = if ctx.flag() { Dd::new(hi, 0.0) } else { dd_at(ctx, hi) };
            if ctx.flag() {
                a = Dd::new(a.hi, 0.0);
            }
        }
    }
    if ctx.chance(1, 24) && a.hi != 0.0 && a.hi.is_finite() {
        // the mirror image: the PRODUCT or QUOTIENT lands in the last binade before overflow (up to
        // exactly +-f64::MAX: one factor a power of two, the other with an all-ones significand),
        // where a final Fast2Sum overflows or a "saturating" repair shows
        ctx.label("rel:result-at-the-top");
        let t = ctx.range(1021, 1024);
        let mul = ctx.flag();
        let eb = if mul { t - exponent(a.hi) } else { exponent(a.hi) - t };
        if (-1000..=999).contains(&eb) {
            let m = match ctx.below(3) {
                0 => 0,
                1 => (1u64 << 52) - 1,
                _ => mantissa(ctx),
            };
            let hi = f64::from_bits(((ctx.flag() as u64) << 63) | (((eb + 1023) as u64) << 52) | m);
            b = if ctx.flag() { Dd::new(hi, 0.0) } else { dd_at(ctx, hi) };
            if ctx.flag() {
                let am = if ctx.flag() { (1u64 << 52) - 1 } else { 0 };
                let ah = f64::from_bits((a.hi.to_bits() & !((1u64 << 52) - 1)) | am);
                a = dd_at(ctx, ah);
            }
        }
    }
    let c = operand(ctx);
    let mut f = operand_f64(ctx, a);
    let mut g = operand_f64(ctx, Dd::new(f, 0.0));
    if ctx.chance(1, 20) {
        // a factor with a short mantissa (single-precision data and thereabouts) and a whole number,
        // the two widths adding up to 50..58 bits: the products around the 53-bit limit, where
        // "narrow operands have an exact product" shortcuts live
        ctx.label("rel:narrow-factor-times-whole-number");
        let w1 = ctx.range(18, 30) as u32;
        let w2 = (ctx.range(50, 58) as u32).saturating_sub(w1).clamp(2, 40);
        let m1 = ((ctx.bits(w1) | 1) | (1 << (w1 - 1))) as f64;
        let m2 = ((ctx.bits(w2) | 1) | (1 << (w2 - 1))) as f64;
        let narrow = m1 * pow2_f64(ctx.range(-70, 40));
        let narrow = if ctx.flag() { -narrow } else { narrow };
        let whole = if ctx.flag() { -m2 } else { m2 };
        let (p, q) = if ctx.flag() { (narrow, whole) } else { (whole, narrow) };
        match ctx.below(3) {
            0 => {
                f = p;
                g = q;
            }
            1 => {
                a = Dd::new(p, 0.0);
                f = q;
                b = Dd::new(q, 0.0);
            }
            _ => {
                // the whole number arises inside the operation: f / a, f % a with a narrow divisor
                a = Dd::new(narrow, 0.0);
                b = a;
                f = narrow * whole * (1.0 + (ctx.bits(20) as f64) * pow2_f64(-52));
                g = narrow;
            }
        }
    }
    Args { a: (a.hi, a.lo), b: (b.hi, b.lo), c: (c.hi, c.lo), f, g, n: small_n(ctx), i: int_arg(ctx) }
}

fn key_args(ctx: &mut Ctx, e: &Entry, x: &Args) {
    match e.uses {
        Uses::FF => {
            ctx.key_f64(x.f);
            ctx.key_f64(x.g);
        }
        Uses::A => {
            ctx.key_f64(x.a.0);
            ctx.key_f64(x.a.1);
        }
        Uses::AB => {
            ctx.key_f64(x.a.0);
            ctx.key_f64(x.a.1);
            ctx.key_f64(x.b.0);
            ctx.key_f64(x.b.1);
        }
        Uses::AF => {
            ctx.key_f64(x.a.0);
            ctx.key_f64(x.a.1);
            ctx.key_f64(x.f);
        }
        Uses::AN => {
            ctx.key_f64(x.a.0);
            ctx.key_f64(x.a.1);
            ctx.key_u64(x.n as u32 as u64);
        }
        Uses::I => {
            ctx.key_u64(x.i as u64);
            ctx.key_u64((x.i >> 64) as u64);
        }
        Uses::ABC => {
            for w in [x.a, x.b, x.c] {
                ctx.key_f64(w.0);
                ctx.key_f64(w.1);
            }
        }
        Uses::None => ctx.key_u64(x.n as u32 as u64),
    }
}

fn show_args(e: &Entry, x: &Args) -> String {
    let d = |w: (f64, f64)| Dd::new(w.0, w.1).show();
    match e.uses {
        Uses::FF => format!("f = {}, g = {}", showf(x.f), showf(x.g)),
        Uses::A => format!("a = {}", d(x.a)),
        Uses::AB => format!("a = {}, b = {}", d(x.a), d(x.b)),
        Uses::AF => format!("a = {}, f = {}", d(x.a), showf(x.f)),
        Uses::AN => format!("a = {}, n = {}", d(x.a), x.n),
        Uses::I => format!("i = {}", x.i),
        Uses::ABC => format!("a = {}, b = {}, c = {}", d(x.a), d(x.b), d(x.c)),
        Uses::None => format!("index = {}", x.n),
    }
}

/// the error-free product/quotient constructors are claimed only when the exact
/// product/quotient is 0 or at least 2^-960 in magnitude
fn in_c01_domain(e: &Entry, x: &Args) -> bool {
    match e.name {
        "new_mul" => {
            let p = Big::from_f64(x.f).mul(&Big::from_f64(x.g));
            p.is_zero() || p.abs() >= Big::pow2(-960)
        }
        "new_div" => {
            if x.g == 0.0 {
                return true;
            }
            let (a, b) = (Big::from_f64(x.f), Big::from_f64(x.g));
            a.is_zero() || a.abs() >= b.abs().mul_pow2(-960)
        }
        _ => true,
    }
}

fn c01_sweep(ctx: &mut Ctx) {
    let tab = std_table();
    let i = ctx.below(tab.len() as u64) as usize;
    let e = &tab[i];
    let x = gen_args(ctx);
    ctx.key_u64(i as u64);
    key_args(ctx, e, &x);
    ctx.note("entry", || e.name.to_string());
    ctx.note("args", || show_args(e, &x));
    if !in_c01_domain(e, &x) {
        ctx.out_of_domain();
        return;
    }
    match guard(|| (e.f)(&x)) {
        Err(_) => {
            // a panic produces no TwoFloat; C01 does not speak about it (C13/C14... do)
            ctx.label("panicked");
        }
        Ok(out) => {
            ctx.note("result", || out.iter().map(|w| Dd::new(w.0, w.1).show()).collect::<Vec<_>>().join(", "));
            for w in &out {
                let r = Dd::new(w.0, w.1);
                check!(ctx, normalised_or_nonfinite(r), "{}({}) returned {}: finite high word with an overlapping / non-finite low word", e.name, show_args(e, &x), r.show());
                ctx.set_nontrivial(r.finite() && r.lo != 0.0);
            }
        }
    }
}

const GRID_K: u64 = 128 * 750;
const GRID_N: u64 = 2 * (GRID_K + 1) + 2 * 350 + 2 * 2001 + 129 * 129;

/// Exactly representable "round" arguments with a zero low word: +-k/128 up to 750, the
/// integers up to 1100, +-2^k, and (for the binary entries) pairs of quarter-integers in
/// [-16, 16].  Random generation reaches each of them with probability ~0; table look-ups
/// and reduced-argument-is-zero shortcuts sit exactly there.
fn c01_exact_grid(ctx: &mut Ctx) {
    let mut i = ctx.word();
    ctx.key_u64(i);
    let tab = std_table();
    let sgn = |i: u64, v: f64| if i & 1 == 1 { -v } else { v };
    let (a, b): (f64, Option<f64>) = if i < 2 * (GRID_K + 1) {
        (sgn(i, (i >> 1) as f64 / 128.0), None)
    } else {
        i -= 2 * (GRID_K + 1);
        if i < 700 {
            (sgn(i, (751 + (i >> 1)) as f64), None)
        } else {
            i -= 700;
            if i < 4002 {
                (sgn(i, pow2_f64((i >> 1) as i64 - 1000)), None)
            } else {
                i -= 4002;
                ((i / 129) as f64 / 4.0 - 16.0, Some((i % 129) as f64 / 4.0 - 16.0))
            }
        }
    };
    ctx.note("a", || showf(a));
    if let Some(b) = b {
        ctx.note("b", || showf(b));
    }
    let x = Args { a: (a, 0.0), b: (b.unwrap_or(1.0), 0.0), c: (1.0, 0.0), f: b.unwrap_or(1.0), g: 1.0, n: b.map(|v| v as i32).unwrap_or(1), i: 0 };
    for e in tab.iter() {
        let wanted = match e.uses {
            Uses::A => b.is_none(),
            Uses::AB | Uses::AF | Uses::AN => b.is_some(),
            _ => false,
        };
        if !wanted || !in_c01_domain(e, &x) {
            continue;
        }
        if let Ok(out) = guard(|| (e.f)(&x)) {
            for w in &out {
                let r = Dd::new(w.0, w.1);
                check!(ctx, normalised_or_nonfinite(r), "{}({}) returned {}: finite high word with an overlapping / non-finite low word", e.name, show_args(e, &x), r.show());
            }
        }
    }
    ctx.set_nontrivial(true);
}

fn in_operand_domain(r: Dd) -> bool {
    r.valid() && (r.hi == 0.0 || (exponent(r.hi) >= -1000 && exponent(r.hi) <= 999))
}

fn item_ctx_words(it: &[u64; 4]) -> Vec<u64> {
    let mut v = Vec::with_capacity(40);
    for r in 0..10u32 {
        for (j, w) in it.iter().enumerate() {
            v.push(if r == 0 { *w } else { w.rotate_left(7 * r + 3 * j as u32) ^ (0x9E3779B97F4A7C15u64.wrapping_mul(r as u64 + 1)) });
        }
    }
    v
}

/// programs: registers + a vector of instructions interpreted over the API; the invariant
/// is checked after every step, and a result leaving the operand domain is replaced by a
/// fresh valid value so that every later step sees operands the property quantifies over
fn c01_program(ctx: &mut Ctx) {
    let tab = std_table();
    let mut regs: Vec<Dd> = (0..4).map(|_| operand(ctx)).collect();
    let mut produced = [false; 4];
    for r in &regs {
        r.key(ctx);
    }
    let items: Vec<[u64; 4]> = ctx.items.to_vec();
    let mut trace: Vec<String> = Vec::new();
    let mut chain = 0u32;
    let mut best_chain = 0u32;
    let mut refills = 0u32;
    let mut last_finite_lo = false;
    for it in &items {
        for w in it {
            ctx.key_u64(*w);
        }
        let cw = CaseWords { head: item_ctx_words(it), items: vec![] };
        let mut c2 = Ctx::new(&cw, &[]);
        let ei = c2.below(tab.len() as u64) as usize;
        let e = &tab[ei];
        let (r1, r2, dst) = (c2.below(4) as usize, c2.below(4) as usize, c2.below(4) as usize);
        let r3 = (r2 + 1) % 4;
        let fresh = operand(&mut c2);
        let f = operand_f64(&mut c2, regs[r1]);
        let g = operand_f64(&mut c2, Dd::new(f, 0.0));
        let x = Args { a: (regs[r1].hi, regs[r1].lo), b: (regs[r2].hi, regs[r2].lo), c: (regs[r3].hi, regs[r3].lo), f, g, n: small_n(&mut c2), i: int_arg(&mut c2) };
        if !in_c01_domain(e, &x) {
            continue;
        }
        let out = match guard(|| (e.f)(&x)) {
            Ok(o) => o,
            Err(_) => {
                ctx.label("step-panicked");
                continue;
            }
        };
        if ctx.want_desc {
            trace.push(format!("r{dst} = {}({}) -> {}", e.name, show_args(e, &x), out.iter().map(|w| Dd::new(w.0, w.1).show()).collect::<Vec<_>>().join(", ")));
        }
        for w in &out {
            let r = Dd::new(w.0, w.1);
            if !normalised_or_nonfinite(r) {
                ctx.fail(format!("step {}: {}({}) returned {}: finite high word with an overlapping / non-finite low word", trace.len(), e.name, show_args(e, &x), r.show()));
            }
        }
        if ctx.failed() {
            break;
        }
        let used_chained = match e.uses {
            Uses::A | Uses::AF | Uses::AN => produced[r1],
            Uses::AB => produced[r1] && produced[r2],
            Uses::ABC => produced[r1] && produced[r2] && produced[r3],
            _ => false,
        };
        chain = if used_chained { chain + 1 } else { 0 };
        best_chain = best_chain.max(chain);
        let r = Dd::new(out[0].0, out[0].1);
        last_finite_lo = r.finite() && r.lo != 0.0;
        if in_operand_domain(r) {
            regs[dst] = r;
            produced[dst] = true;
        } else {
            regs[dst] = fresh;
            produced[dst] = false;
            refills += 1;
        }
    }
    ctx.note("program", || trace.join(" ; "));
    ctx.note("refills", || refills.to_string());
    if refills > 0 {
        ctx.label("register-refilled");
    }
    if best_chain >= 3 {
        ctx.label("chain>=3");
    }
    ctx.set_nontrivial(best_chain >= 3 && (last_finite_lo || regs.iter().any(|r| r.lo != 0.0)));
}

/// The constants as the num_traits accessors hand them out (a trait impl may carry its own literal
/// instead of forwarding to the published constant): each must be normalised or non-finite too.
fn c01_trait_constants(ctx: &mut Ctx) {
    use num_traits::{float::FloatCore, Bounded, Float, FloatConst, One, Zero};
    use twofloat::TwoFloat as T;
    let i = ctx.word() as usize;
    ctx.key_u64(i as u64);
    let tab: [(&str, fn() -> T); 40] = [
        ("Float::max_value", <T as Float>::max_value),
        ("Float::min_value", <T as Float>::min_value),
        ("Float::min_positive_value", <T as Float>::min_positive_value),
        ("Float::epsilon", <T as Float>::epsilon),
        ("Float::infinity", <T as Float>::infinity),
        ("Float::neg_infinity", <T as Float>::neg_infinity),
        ("Float::nan", <T as Float>::nan),
        ("Float::neg_zero", <T as Float>::neg_zero),
        ("FloatCore::max_value", <T as FloatCore>::max_value),
        ("FloatCore::min_value", <T as FloatCore>::min_value),
        ("FloatCore::min_positive_value", <T as FloatCore>::min_positive_value),
        ("FloatCore::epsilon", <T as FloatCore>::epsilon),
        ("FloatCore::infinity", <T as FloatCore>::infinity),
        ("FloatCore::neg_infinity", <T as FloatCore>::neg_infinity),
        ("FloatCore::nan", <T as FloatCore>::nan),
        ("FloatCore::neg_zero", <T as FloatCore>::neg_zero),
        ("Bounded::max_value", <T as Bounded>::max_value),
        ("Bounded::min_value", <T as Bounded>::min_value),
        ("Zero::zero", <T as Zero>::zero),
        ("One::one", <T as One>::one),
        ("FloatConst::E", <T as FloatConst>::E),
        ("FloatConst::FRAC_1_PI", <T as FloatConst>::FRAC_1_PI),
        ("FloatConst::FRAC_1_SQRT_2", <T as FloatConst>::FRAC_1_SQRT_2),
        ("FloatConst::FRAC_2_PI", <T as FloatConst>::FRAC_2_PI),
        ("FloatConst::FRAC_2_SQRT_PI", <T as FloatConst>::FRAC_2_SQRT_PI),
        ("FloatConst::FRAC_PI_2", <T as FloatConst>::FRAC_PI_2),
        ("FloatConst::FRAC_PI_3", <T as FloatConst>::FRAC_PI_3),
        ("FloatConst::FRAC_PI_4", <T as FloatConst>::FRAC_PI_4),
        ("FloatConst::FRAC_PI_6", <T as FloatConst>::FRAC_PI_6),
        ("FloatConst::FRAC_PI_8", <T as FloatConst>::FRAC_PI_8),
        ("FloatConst::LN_10", <T as FloatConst>::LN_10),
        ("FloatConst::LN_2", <T as FloatConst>::LN_2),
        ("FloatConst::LOG10_E", <T as FloatConst>::LOG10_E),
        ("FloatConst::LOG2_E", <T as FloatConst>::LOG2_E),
        ("FloatConst::PI", <T as FloatConst>::PI),
        ("FloatConst::SQRT_2", <T as FloatConst>::SQRT_2),
        ("FloatConst::TAU", <T as FloatConst>::TAU),
        ("FloatConst::LOG10_2", <T as FloatConst>::LOG10_2),
        ("FloatConst::LOG2_10", <T as FloatConst>::LOG2_10),
        ("Float::max_value (again)", <T as Float>::max_value),
    ];
    let (name, f) = tab[i % tab.len()];
    ctx.note("accessor", || name.to_string());
    match guard(f) {
        Err(m) => ctx.fail(format!("{name}() panicked: {m}")),
        Ok(t) => {
            let r = Dd::new(t.hi(), t.lo());
            check!(ctx, normalised_or_nonfinite(r), "{name}() returned {}: finite high word with an overlapping / non-finite low word", r.show());
        }
    }
    ctx.set_nontrivial(true);
}

pub fn c01() -> Property {
    Property {
        id: "C01",
        rule: "(a) single-call sweep: entry chosen from a table of 101 public entry points producing a TwoFloat (constructors, 25 operator/assignment forms, utility/rounding methods, 13 integer/float conversions, trait routes, all elementary functions, 29 constants); operands valid with hi = 0 or in [2^-1000,2^1000]: whole-range, moderate, pivots of the range switches (±709, -1074..-1020, 1023, k*pi/4, 2^52, 2^53, 32.25 ...) with ulp/2^-j offsets, rounding-function operands, deep-negative exponents for exp/exp2, edge exponents; f64/int/128-bit tie-family arguments. (b) programs: 4 registers and up to 48 instructions over the same table, invariant after every step, a result leaving the operand domain is replaced by a fresh valid value (counted). Oracle: hi finite => lo finite and hi + lo == hi (hardware, cross-checked by exact rounding). non-trivial = finite result with non-zero low word (sweep); a chain of >= 3 steps on operands produced by earlier steps (programs); distinct = distinct (entry, operand bits) / instruction words exact_grid (complete): every unary entry at +-k/128 (|x| <= 750), the integers up to 1100 and +-2^k with a zero low word, every binary/f64/integer-exponent entry at pairs of quarter-integers in [-16,16].",
        assumptions: vec!["a panic produces no TwoFloat and is only counted here (totality is claimed by C13-C15, C18)".into()],
        subchecks: vec![
            SubCheck { name: "sweep", kind: Kind::Generated { words: 120, max_items: 0 }, eval: c01_sweep, quick: 6_000_000, thorough: 150_000_000 },
            SubCheck { name: "exact_grid", kind: Kind::Enumerated { n: GRID_N }, eval: c01_exact_grid, quick: 0, thorough: 0 },
            SubCheck { name: "trait_constants", kind: Kind::Enumerated { n: 40 }, eval: c01_trait_constants, quick: 0, thorough: 0 },
            SubCheck { name: "programs", kind: Kind::Generated { words: 48, max_items: 48 }, eval: c01_program, quick: 100_000, thorough: 4_000_000 },
        ],
    }
}

// ------------------------------------------------------------------ C11

fn same_out(a: &Out, b: &Out) -> bool {
    a.len() == b.len() && a.iter().zip(b.iter()).all(|(x, y)| same_word(x.0, y.0) && same_word(x.1, y.1))
}

/// exponent handed to TwoFloat::powi by the integer-power entries of the table
fn powi_family_exponent(name: &str, x: &Args) -> Option<i32> {
    match name {
        "powi" | "Float::powi" | "FloatCore::powi" => Some(x.n),
        "Pow<i16>" => Some(x.n as i16 as i32),
        _ => None,
    }
}

/// The operator sequence of `TwoFloat::powi` (src/base.rs) replayed on the DEFAULT-features build
/// with the squaring written on two copies the optimiser cannot identify (`value *= copy`), i.e.
/// exactly what the no_std build computes if - and only if - its fma agrees with the hardware one.
fn powi_alias_free(a: twofloat::TwoFloat, n: i32) -> twofloat::TwoFloat {
    use std::hint::black_box;
    use twofloat::TwoFloat;
    match n {
        0 => {
            if a.hi() == 0.0 && a.lo() == 0.0 {
                TwoFloat::NAN
            } else {
                TwoFloat::from(1.0)
            }
        }
        1 => a,
        -1 => a.recip(),
        _ => {
            let mut result = TwoFloat::from(1.0);
            let mut n_pos = n.unsigned_abs();
            let mut value = a;
            while n_pos > 0 {
                if (n_pos & 1) != 0 {
                    result *= &value;
                }
                let copy = black_box(value);
                value *= copy;
                value = black_box(value);
                n_pos >>= 1;
            }
            if n > 0 {
                result
            } else {
                result.recip()
            }
        }
    }
}

fn differ_only_in_zero_signs(a: &Out, b: &Out) -> bool {
    let w = |p: f64, q: f64| same_word(p, q) || (p == 0.0 && q == 0.0);
    a.len() == b.len() && a.iter().zip(b.iter()).all(|(x, y)| w(x.0, y.0) && w(x.1, y.1))
}

/// Verdict on a pair of results of the two configurations.  A difference is a violation, except
/// the listed finding C11/powi-same-object-square:zero-sign, which is recognised by ALL of:
/// the entry is an integer power (one call site: `value *= value` in TwoFloat::powi); the words
/// differ only in the sign of zeros; and the default build's own operators, replayed with the
/// squaring on two unidentifiable copies, reproduce the no_std result bit for bit (so the no_std
/// fma is not at fault: the default build's optimised squaring of ONE object is).
fn c11_verdict(ctx: &mut Ctx, name: &str, x: &Args, a: &Out, b: &Out, msg: String) {
    if same_out(a, b) {
        return;
    }
    if let Some(n) = powi_family_exponent(name, x) {
        if differ_only_in_zero_signs(a, b) && b.len() == 1 {
            // the operand enters as in the entry table (api.rs `t`)
            let t = match twofloat::TwoFloat::try_from(x.a) {
                Ok(v) => v,
                Err(_) if x.a.0 == f64::INFINITY => twofloat::TwoFloat::INFINITY,
                Err(_) if x.a.0 == f64::NEG_INFINITY => twofloat::TwoFloat::NEG_INFINITY,
                Err(_) => twofloat::TwoFloat::NAN,
            };
            if let Ok(r) = guard(|| powi_alias_free(t, n)) {
                if same_word(r.hi(), b[0].0) && same_word(r.lo(), b[0].1) {
                    ctx.known_or_fail("C11/powi-same-object-square:zero-sign", msg);
                    return;
                }
            }
        }
    }
    ctx.fail(msg);
}

/// integer powers whose repeated squaring passes through the subnormal range (the error terms of
/// the squares underflow to signed zeros there)
fn powi_through_subnormals(ctx: &mut Ctx, x: &mut Args) {
    if ctx.chance(1, 3) {
        // |a|^n within a few ulps of the overflow threshold: a next to 2^(1024/n) (or its
        // reciprocal for negative n), where a one-word estimate of the power and the double-double
        // loop disagree about "finite"
        ctx.label("powi:result-at-the-overflow-threshold");
        let n = if ctx.flag() { ctx.range(2, 64) } else { ctx.range(2, 4000) };
        let r = (1024.0 / n as f64).exp2();
        let neg_n = ctx.flag();
        let base = if neg_n { 1.0 / r } else { r };
        let hi = step(base, ctx.range(-40, 40));
        let hi = if ctx.flag() { -hi } else { hi };
        let d = if ctx.flag() { Dd::new(hi, 0.0) } else { dd_at(ctx, hi) };
        x.a = (d.hi, d.lo);
        x.n = if neg_n { -(n as i32) } else { n as i32 };
        return;
    }
    if ctx.flag() {
        // n = 2^(k+1) - 1 - j: the partial product a^(n - 2^k) and the top square a^(2^k) are both
        // subnormal (zero low words), so the sign of the square's zero low word reaches the result
        ctx.label("powi:partial-product-and-top-square-subnormal");
        let k = ctx.range(3, 8);
        let top = 1i64 << k;
        let n = (2 * top - 1 - ctx.range(0, 3)) as i32;
        let et = ctx.range(-1076, -1030);
        let e = et.div_euclid(top);
        let u = ctx.bits(52) >> k;
        let hi = f64::from_bits((((e + 1023) as u64) << 52) | u);
        let hi = if ctx.flag() { -hi } else { hi };
        let d = dd_at(ctx, hi);
        x.a = (d.hi, d.lo);
        x.n = n;
        return;
    }
    ctx.label("powi:square-chain-through-subnormals");
    let n = ctx.range(2, 300) as i32;
    let top = 1i64 << (31 - (n as u32).leading_zeros());
    let e_target = ctx.range(-1110, -1000);
    let e = e_target / top;
    let hi = f64_exp(ctx, e - 1, e);
    let d = dd_at(ctx, hi);
    x.a = (d.hi, d.lo);
    x.n = if ctx.chance(1, 8) { -n } else { n };
}

fn c11_differential(ctx: &mut Ctx) {
    let (ts, tn) = (std_table(), nostd_table());
    assert_eq!(ts.len(), tn.len());
    let i = ctx.below(ts.len() as u64) as usize;
    let (es, en) = (&ts[i], &tn[i]);
    // operands: the C01 sweep plus (1/8) arbitrary non-finite / out-of-range words
    let mut x = gen_args(ctx);
    if ctx.chance(1, 8) {
        ctx.label("wild-operands");
        let d = dd_exp(ctx, -1022, 1023, true);
        x.a = (d.hi, d.lo);
        x.f = f64_any(ctx);
        // the extremes of f64 and the non-finite constants as operands (the entry table maps an
        // infinite high word onto TwoFloat::INFINITY / NEG_INFINITY, anything else invalid onto NAN)
        const EXT: [f64; 10] = [f64::MAX, f64::MIN, f64::MIN_POSITIVE, -f64::MIN_POSITIVE, 5e-324, -5e-324, f64::INFINITY, f64::NEG_INFINITY, f64::NAN, 8.98846567431158e307];
        if ctx.chance(1, 3) {
            x.f = EXT[ctx.below(10) as usize];
        }
        if ctx.chance(1, 4) {
            x.g = EXT[ctx.below(10) as usize];
        }
        if ctx.chance(1, 4) {
            x.a = (EXT[ctx.below(10) as usize], 0.0);
        }
        if ctx.chance(1, 6) {
            x.b = (EXT[ctx.below(10) as usize], 0.0);
        }
    }
    if powi_family_exponent(es.name, &x).is_some() && ctx.chance(1, 3) {
        powi_through_subnormals(ctx, &mut x);
    }
    ctx.key_u64(i as u64);
    key_args(ctx, es, &x);
    ctx.note("entry", || es.name.to_string());
    ctx.note("args", || show_args(es, &x));
    let eh = &hooked_table()[i];
    let rs = guard(|| (es.f)(&x));
    let rn = guard(|| (en.f)(&x));
    let rh = guard(|| (eh.f)(&x));
    let show = |o: &Out| o.iter().map(|w| Dd::new(w.0, w.1).show()).collect::<Vec<_>>();
    match (&rs, &rn) {
        (Ok(a), Ok(b)) => {
            ctx.note("std", || format!("{:?}", a));
            let msg = format!("{}({}): default-features build returned {:?} but the no_std/libm build returned {:?}", es.name, show_args(es, &x), show(a), show(b));
            c11_verdict(ctx, es.name, &x, a, b, msg);
            let fin = a.iter().any(|w| w.0.is_finite() && w.0 != 0.0);
            ctx.set_nontrivial(es.uses_fma && fin);
        }
        (Err(_), Err(_)) => ctx.label("both-panicked"),
        _ => ctx.fail(format!("{}({}): one build panicked and the other did not (std: {:?}, no_std: {:?})", es.name, show_args(es, &x), rs.as_ref().err(), rn.as_ref().err())),
    }
    // hooks-neutrality: the instrumented build (feature verif_hooks, used only for C07's raw
    // is_valid and for the fma hook) must behave exactly like the crate users compile
    match (&rs, &rh) {
        (Ok(a), Ok(b)) => check!(ctx, same_out(a, b), "{}({}): the crate as users build it returned {:?} but the build with the verif_hooks feature returned {:?}: results depend on the build configuration", es.name, show_args(es, &x), show(a), show(b)),
        (Err(_), Err(_)) => {}
        _ => ctx.fail(format!("{}({}): panics differ between the plain build and the verif_hooks build (plain: {:?}, hooked: {:?})", es.name, show_args(es, &x), rs.as_ref().err(), rh.as_ref().err())),
    }
}

/// adversarial (x, y, z) for a fused multiply-add
fn fma_triple(ctx: &mut Ctx) -> (f64, f64, f64) {
    let x = f64_any(ctx);
    let y = match ctx.weighted(&[6, 2, 1]) {
        0 => f64_any(ctx),
        1 => {
            // keep the product in range
            if x.is_finite() && x != 0.0 {
                let e = (-exponent(x) + ctx.range(-60, 60)).clamp(-1022, 1023);
                let m = mantissa(ctx);
                f64::from_bits(((ctx.flag() as u64) << 63) | (((e + 1023) as u64) << 52) | m)
            } else {
                f64_any(ctx)
            }
        }
        _ => x,
    };
    let p = x * y;
    let c = ctx.weighted(&[3, 5, 4, 3, 2, 2]);
    let z = match c {
        0 => f64_any(ctx),
        1 => {
            ctx.label("z:-RN(xy)");
            -p
        }
        2 => {
            ctx.label("z:-RN(xy)+-k ulp");
            let k = ctx.range(-3, 3);
            -step(p, k)
        }
        3 => {
            // z such that x*y + z lands next to a rounding midpoint: z = m - xy_hi with m a midpoint-ish
            ctx.label("z:midpoint-trap");
            if p.is_finite() && p != 0.0 {
                let u = ulp(p);
                let s = match ctx.below(4) {
                    0 => 0.5,
                    1 => 1.5,
                    2 => 0.25,
                    _ => 0.75,
                };
                let g = ctx.range(0, 60);
                let zz = p * pow2_f64(g.min(1000 - exponent(p).abs().min(900))) + u * s;
                if ctx.flag() {
                    -zz
                } else {
                    zz
                }
            } else {
                f64_any(ctx)
            }
        }
        4 => {
            ctx.label("z:huge-gap");
            if p.is_finite() && p != 0.0 {
                let g = ctx.range(54, 1100) * if ctx.flag() { -1 } else { 1 };
                let e = (exponent(p) + g).clamp(-1074, 1023);
                let v = if e >= -1022 { f64::from_bits((((e + 1023) as u64) << 52) | mantissa(ctx)) } else { pow2_f64(e) };
                if ctx.flag() {
                    -v
                } else {
                    v
                }
            } else {
                0.0
            }
        }
        _ => {
            ctx.label("z:subnormal-result");
            // cancel down into the subnormal range
            let v = -p + f64::from_bits(ctx.bits(52)) * if ctx.flag() { -1.0 } else { 1.0 };
            if v.is_finite() {
                v
            } else {
                -p
            }
        }
    };
    (x, y, z)
}

/// IEEE 754 fusedMultiplyAdd for operands that are not all finite: Some(NaN) / Some(+-inf)
fn fma_special(x: f64, y: f64, z: f64) -> f64 {
    if x.is_nan() || y.is_nan() || z.is_nan() {
        return f64::NAN;
    }
    if x.is_infinite() || y.is_infinite() {
        if x == 0.0 || y == 0.0 {
            return f64::NAN;
        }
        let p = if (x < 0.0) != (y < 0.0) { f64::NEG_INFINITY } else { f64::INFINITY };
        if z.is_infinite() && z != p {
            return f64::NAN;
        }
        return p;
    }
    z // x, y finite, z infinite
}

fn c11_fma(ctx: &mut Ctx) {
    let (mut x, mut y, mut z) = fma_triple(ctx);
    if ctx.chance(1, 32) {
        // operands from the special values: the exits a wrapper might take before the real fma
        ctx.label("fma:special-operands");
        const P: [f64; 12] = [f64::INFINITY, f64::NEG_INFINITY, f64::NAN, 0.0, -0.0, 1.0, -1.0, f64::MAX, f64::MIN, 5e-324, -3.0, 2.0];
        let i = ctx.bits(12);
        x = P[(i % 12) as usize];
        y = P[((i / 12) % 12) as usize];
        z = P[((i / 144) % 12) as usize];
    }
    ctx.key_f64(x);
    ctx.key_f64(y);
    ctx.key_f64(z);
    note_f(ctx, "x", x);
    note_f(ctx, "y", y);
    note_f(ctx, "z", z);
    let a = fma_hooks::std_fma(x, y, z);
    let b = fma_hooks::nostd_fma(x, y, z);
    ctx.note("fma", || format!("std {} / libm {}", showf(a), showf(b)));
    check!(ctx, same_word(a, b) || (a == 0.0 && b == 0.0), "fma({}, {}, {}): {} = {} but {} = {}", showf(x), showf(y), showf(z), fma_hooks::STD_BACKEND, showf(a), fma_hooks::NOSTD_BACKEND, showf(b));
    if x.is_finite() && y.is_finite() && z.is_finite() {
        let exact = Big::from_f64(x).mul(&Big::from_f64(y)).add(&Big::from_f64(z));
        let want = exact.to_f64_rn();
        // a zero result carries a sign too: that of the exact value if it is not zero (underflow);
        // for an exact zero, -0 only when the product and the addend are both -0 (round to nearest)
        let want = if want == 0.0 {
            let neg = if !exact.is_zero() {
                exact.sign() < 0
            } else if (x == 0.0 || y == 0.0) && z == 0.0 {
                (x.is_sign_negative() != y.is_sign_negative()) && z.is_sign_negative()
            } else {
                false
            };
            if neg {
                -0.0
            } else {
                0.0
            }
        } else {
            want
        };
        for (name, got) in [(fma_hooks::STD_BACKEND, a), (fma_hooks::NOSTD_BACKEND, b)] {
            check!(ctx, same_word(got, want), "fma({}, {}, {}) via {} = {} but the correctly rounded value is {}", showf(x), showf(y), showf(z), name, showf(got), showf(want));
        }
        let inexact = Big::from_f64(want.clamp(f64::MIN, f64::MAX)) != exact;
        ctx.set_nontrivial(inexact);
    } else {
        let want = fma_special(x, y, z);
        for (name, got) in [(fma_hooks::STD_BACKEND, a), (fma_hooks::NOSTD_BACKEND, b)] {
            check!(ctx, same_word(got, want), "fma({}, {}, {}) via {} = {} but IEEE 754 gives {}", showf(x), showf(y), showf(z), name, showf(got), showf(want));
        }
    }
}

// ---- isolated configurations (harness_iso/): one build of /repo per child process

struct Iso {
    child: std::process::Child,
    inp: Option<std::process::ChildStdin>,
    out: std::io::BufReader<std::process::ChildStdout>,
}

impl Iso {
    fn spawn(which: &str) -> Result<Iso, String> {
        use std::io::BufRead;
        let dir = std::env::var("VERIF_DIR").unwrap_or_else(|_| "/verif".into());
        let path = format!("{dir}/harness_iso/{which}/target/release/iso_{which}");
        let mut child = std::process::Command::new(&path)
            .stdin(std::process::Stdio::piped())
            .stdout(std::process::Stdio::piped())
            .stderr(std::process::Stdio::null())
            .spawn()
            .map_err(|e| format!("cannot start {path}: {e}"))?;
        let inp = child.stdin.take();
        let mut out = std::io::BufReader::new(child.stdout.take().unwrap());
        // the child announces its entry table; it must be the table this process indexes
        let mut names = Vec::new();
        loop {
            let mut l = String::new();
            out.read_line(&mut l).map_err(|e| format!("{path}: {e}"))?;
            let l = l.trim_end_matches('\n').to_string();
            if l.is_empty() {
                break;
            }
            names.push(l);
        }
        let mine: Vec<&str> = std_table().iter().map(|e| e.name).collect();
        if names != mine {
            return Err(format!("{path}: entry table differs from this process's table"));
        }
        Ok(Iso { child, inp, out })
    }

    fn send(&mut self, idx: usize, x: &Args) -> Result<(), String> {
        use std::io::Write;
        let mut rec = [0u8; 88];
        rec[0..4].copy_from_slice(&(idx as u32).to_le_bytes());
        for (k, v) in [x.a.0, x.a.1, x.b.0, x.b.1, x.c.0, x.c.1, x.f, x.g].iter().enumerate() {
            rec[4 + 8 * k..12 + 8 * k].copy_from_slice(&v.to_bits().to_le_bytes());
        }
        rec[68..72].copy_from_slice(&x.n.to_le_bytes());
        rec[72..88].copy_from_slice(&x.i.to_le_bytes());
        let w = self.inp.as_mut().ok_or("closed")?;
        w.write_all(&rec).map_err(|e| e.to_string())?;
        w.flush().map_err(|e| e.to_string())?;
        Ok(())
    }

    /// Ok(Some(out)) returned, Ok(None) panicked, Err = the channel broke
    fn recv(&mut self) -> Result<Option<Out>, String> {
        use std::io::Read;
        let mut h = [0u8; 2];
        self.out.read_exact(&mut h).map_err(|e| e.to_string())?;
        if h[0] == 1 {
            return Ok(None);
        }
        let mut o = Vec::new();
        for _ in 0..h[1] {
            let mut b = [0u8; 16];
            self.out.read_exact(&mut b).map_err(|e| e.to_string())?;
            o.push((f64::from_bits(u64::from_le_bytes(b[0..8].try_into().unwrap())), f64::from_bits(u64::from_le_bytes(b[8..16].try_into().unwrap()))));
        }
        Ok(Some(o))
    }
}

impl Drop for Iso {
    fn drop(&mut self) {
        self.inp.take();
        let _ = self.child.wait();
    }
}

thread_local! {
    static ISO: std::cell::RefCell<Option<(Iso, Iso)>> = const { std::cell::RefCell::new(None) };
}

fn iso_fault(msg: String) {
    use std::sync::atomic::Ordering;
    if !crate::fcommon::ORACLE_FAULT.swap(true, Ordering::SeqCst) {
        eprintln!("ORACLE-FAULT: isolated configuration runner unavailable: {msg}");
    }
}

const MATH_ENTRIES: [&str; 32] = [
    "sqrt", "cbrt", "hypot", "powf", "exp", "exp2", "exp_m1", "ln", "log2", "log10", "log", "ln_1p", "sin", "cos", "tan", "sin_cos", "asin", "acos", "atan", "atan2", "sinh", "cosh", "tanh", "asinh", "acosh", "atanh", "powi", "recip",
    "to_degrees", "to_radians", "fract", "round",
];

/// The two configurations the property names, each compiled by its own cargo invocation
/// (no feature unification with this harness) and run as a child process; same operand words
/// to both, the words coming back must be identical.
fn c11_isolated(ctx: &mut Ctx) {
    let ts = std_table();
    static MATH_IDX: OnceLock<Vec<usize>> = OnceLock::new();
    let math = MATH_IDX.get_or_init(|| std_table().iter().enumerate().filter(|(_, e)| MATH_ENTRIES.contains(&e.name) || e.name.starts_with("Float::") || e.name.starts_with("FloatCore::")).map(|(i, _)| i).collect());
    let i = if ctx.chance(3, 4) && !math.is_empty() { math[ctx.below(math.len() as u64) as usize] } else { ctx.below(ts.len() as u64) as usize };
    let e = &ts[i];
    let mut x = gen_args(ctx);
    if ctx.chance(1, 3) {
        // moderate magnitudes: where platform libm and the libm crate round differently
        ctx.label("moderate-operands");
        let d = match ctx.below(3) {
            0 => dd_exp(ctx, -8, 12, false),
            1 => {
                let v = ctx.range(1, 100_000) as f64;
                Dd::new(if ctx.flag() { -v } else { v }, 0.0)
            }
            _ => {
                let u = ctx.bits(53) as f64 / 9007199254740992.0;
                let v = (u - 0.25) * 400.0;
                dd_at(ctx, if v == 0.0 { 1.0 } else { v })
            }
        };
        x.a = (d.hi, d.lo);
    }
    if ctx.chance(1, 10) {
        ctx.label("wild-operands");
        const EXT: [f64; 10] = [f64::MAX, f64::MIN, f64::MIN_POSITIVE, -f64::MIN_POSITIVE, 5e-324, -5e-324, f64::INFINITY, f64::NEG_INFINITY, f64::NAN, 8.98846567431158e307];
        match ctx.below(4) {
            0 => x.f = EXT[ctx.below(10) as usize],
            1 => x.a = (EXT[ctx.below(10) as usize], 0.0),
            2 => x.b = (EXT[ctx.below(10) as usize], 0.0),
            _ => {
                x.f = EXT[ctx.below(10) as usize];
                x.g = EXT[ctx.below(10) as usize];
            }
        }
    }
    if powi_family_exponent(e.name, &x).is_some() && ctx.chance(1, 3) {
        powi_through_subnormals(ctx, &mut x);
    }
    ctx.key_u64(i as u64);
    key_args(ctx, e, &x);
    ctx.note("entry", || e.name.to_string());
    ctx.note("args", || show_args(e, &x));
    let r = ISO.with(|cell| {
        let mut c = cell.borrow_mut();
        if c.is_none() {
            match (Iso::spawn("std"), Iso::spawn("nostd")) {
                (Ok(a), Ok(b)) => *c = Some((a, b)),
                (Err(m), _) | (_, Err(m)) => return Err(m),
            }
        }
        let (a, b) = c.as_mut().unwrap();
        // both children compute concurrently
        let sent = a.send(i, &x).and_then(|_| b.send(i, &x));
        let (ra, rb) = match sent {
            Ok(()) => (a.recv(), b.recv()),
            Err(m) => (Err(m.clone()), Err(m)),
        };
        match (ra, rb) {
            (Ok(p), Ok(q)) => Ok((p, q)),
            (Err(m), _) | (_, Err(m)) => {
                *c = None;
                Err(m)
            }
        }
    });
    let (rs, rn) = match r {
        Ok(v) => v,
        Err(m) => {
            iso_fault(m);
            ctx.out_of_domain();
            return;
        }
    };
    let show = |o: &Out| o.iter().map(|w| Dd::new(w.0, w.1).show()).collect::<Vec<_>>();
    match (&rs, &rn) {
        (Some(a), Some(b)) => {
            let msg = format!("{}({}): the default-features build (own process) returned {:?} but the --no-default-features --features math_funcs build (own process) returned {:?}", e.name, show_args(e, &x), show(a), show(b));
            c11_verdict(ctx, e.name, &x, a, b, msg);
            ctx.set_nontrivial(a.iter().any(|w| w.0.is_finite() && w.0 != 0.0));
        }
        (None, None) => ctx.label("both-panicked"),
        _ => ctx.fail(format!("{}({}): one configuration panicked and the other did not (default: {}, no_std: {})", e.name, show_args(e, &x), if rs.is_none() { "panicked" } else { "returned" }, if rn.is_none() { "panicked" } else { "returned" })),
    }
}

pub fn c11() -> Property {
    Property {
        id: "C11",
        rule: "differential: the same table of 101 entry points instantiated for the default-features build and for a renamed copy of /repo's working tree built with default-features = false, features = [math_funcs] (libm::fma), linked into one process and called with identical operand words (the C01 sweep operands, 1/8 with wild operands); the fma backends reported by the two builds are recorded. isolated_configurations: the same table served by two child processes (harness_iso/std, harness_iso/nostd), each compiled by its own cargo invocation from the copy of /repo's working tree with exactly the default features resp. --no-default-features --features math_funcs and no other crate in the graph (so cargo's feature unification cannot leak num-traits/std or similar from the harness into either configuration); 3/4 of the cases on the mathematical functions, 1/3 with moderate operands (integers up to 1e5, [-100,300], 2^-8..2^12). Direct: each build's internal fma against RN(x*y+z) computed exactly, on adversarial triples (z = -RN(xy), ±k ulp, midpoint traps, gaps up to 1100 binades, subnormal results, inf/NaN). non-trivial = entry depends on fma and the result is finite non-zero (differential); x*y+z inexact (direct); distinct = distinct (entry, operand bits)",
        assumptions: vec![
            "the MinGW target cannot be built here; it selects the same libm::fma definition as the no_std build, which is exercised".into(),
            format!("fma backends linked into this process: default build = {}, no_std build = {}", fma_hooks::STD_BACKEND, fma_hooks::NOSTD_BACKEND),
        ],
        subchecks: vec![
            SubCheck { name: "differential", kind: Kind::Generated { words: 130, max_items: 0 }, eval: c11_differential, quick: 3_000_000, thorough: 100_000_000 },
            SubCheck { name: "isolated_configurations", kind: Kind::Generated { words: 130, max_items: 0 }, eval: c11_isolated, quick: 3_000_000, thorough: 100_000_000 },
            SubCheck { name: "fma_direct", kind: Kind::Generated { words: 24, max_items: 0 }, eval: c11_fma, quick: 3_000_000, thorough: 200_000_000 },
        ],
    }
}
