//! C20: Display / LowerExp / UpperExp output and serde round trips

use crate::check;
use crate::common::*;
use crate::engine::{guard, Ctx, Kind, Property, SubCheck};
use crate::gen::*;
use serde::de::value::{Error as DeError, MapDeserializer, SeqDeserializer};
use serde::de::IntoDeserializer;
use serde::Deserialize;
use std::str::FromStr;
use twofloat::TwoFloat;

fn fmt_tf(t: &TwoFloat, tr: u64, plus: bool, prec: Option<usize>) -> String {
    match (tr, plus, prec) {
        (0, false, None) => format!("{}", t),
        (0, true, None) => format!("{:+}", t),
        (0, false, Some(p)) => format!("{:.*}", p, t),
        (0, true, Some(p)) => format!("{:+.*}", p, t),
        (1, false, None) => format!("{:e}", t),
        (1, true, None) => format!("{:+e}", t),
        (1, false, Some(p)) => format!("{:.*e}", p, t),
        (1, true, Some(p)) => format!("{:+.*e}", p, t),
        (_, false, None) => format!("{:E}", t),
        (_, true, None) => format!("{:+E}", t),
        (_, false, Some(p)) => format!("{:.*E}", p, t),
        (_, true, Some(p)) => format!("{:+.*E}", p, t),
    }
}
fn fmt_f64(x: f64, tr: u64, plus: bool, prec: Option<usize>) -> String {
    match (tr, plus, prec) {
        (0, false, None) => format!("{}", x),
        (0, true, None) => format!("{:+}", x),
        (0, false, Some(p)) => format!("{:.*}", p, x),
        (0, true, Some(p)) => format!("{:+.*}", p, x),
        (1, false, None) => format!("{:e}", x),
        (1, true, None) => format!("{:+e}", x),
        (1, false, Some(p)) => format!("{:.*e}", p, x),
        (1, true, Some(p)) => format!("{:+.*e}", p, x),
        (_, false, None) => format!("{:E}", x),
        (_, true, None) => format!("{:+E}", x),
        (_, false, Some(p)) => format!("{:.*E}", p, x),
        (_, true, Some(p)) => format!("{:+.*E}", p, x),
    }
}

fn value_for_text(ctx: &mut Ctx) -> Dd {
    let c = ctx.weighted(&[6, 2, 2]);
    match c {
        0 => dd_all(ctx),
        1 => dd_exp(ctx, -20, 70, true), // plain decimals without exponent
        _ => {
            // extreme exponents: long decimal expansions
            if ctx.flag() {
                dd_exp(ctx, 900, 1023, false)
            } else {
                dd_exp(ctx, -1022, -900, false)
            }
        }
    }
}

const TRAITS: [&str; 3] = ["Display", "LowerExp", "UpperExp"];

fn c20_format(ctx: &mut Ctx) {
    let x = value_for_text(ctx);
    let tr = ctx.below(3);
    let plus = ctx.flag();
    // every usize is a legal precision; f64 renderings change character at 17, ~340 (fixed
    // notation of tiny values), 767 (longest exact expansion of a normal f64) and 1074
    let prec = if ctx.flag() {
        Some(match ctx.weighted(&[14, 3, 2, 1]) {
            0 => ctx.range(0, 40) as usize,
            1 => ctx.range(41, 340) as usize,
            2 => ctx.range(341, 1100) as usize,
            _ => [766usize, 767, 768, 769, 1022, 1023, 1024, 1074, 1075, 1076, 1100, 2000, 4096, 65535][ctx.below(14) as usize],
        })
    } else {
        None
    };
    x.key(ctx);
    ctx.key_u64(tr * 2 + plus as u64);
    ctx.key_u64(prec.map_or(u64::MAX, |p| p as u64));
    note_dd(ctx, "x", x);
    let t = x.tf();
    // the claim is stated in terms of the f64 renderings: where std's own f64 formatting refuses
    // the precision (it panics for `{:.65535e}`), there is no rendering to agree with
    if prec.is_some() && (guard(|| fmt_f64(x.hi, tr, plus, prec)).is_err() || guard(|| fmt_f64(x.lo.abs(), tr, false, prec)).is_err()) {
        ctx.label("f64-rendering-panics");
        ctx.out_of_domain();
        return;
    }
    let s = match guard(|| fmt_tf(&t, tr, plus, prec)) {
        Ok(s) => s,
        Err(m) => {
            ctx.fail(format!("formatting panicked: {m}"));
            return;
        }
    };
    ctx.note("format", || format!("{} plus={} precision={:?}", TRAITS[tr as usize], plus, prec));
    ctx.note("text", || s.clone());
    let what = format!("{}{}{} of {}", TRAITS[tr as usize], if plus { " with +" } else { "" }, prec.map_or(String::new(), |p| format!(" .{p}")), x.show());
    let toks: Vec<&str> = s.split(' ').collect();
    check!(ctx, toks.len() == 3, "{what}: output {:?} is not '<hi> <sign> <|lo|>'", s);
    if toks.len() != 3 {
        return;
    }
    let sign_want = if x.lo.is_sign_negative() { "-" } else { "+" };
    check!(ctx, toks[1] == sign_want, "{what}: sign character {:?} but the sign bit of lo says {:?} (output {:?})", toks[1], sign_want, s);
    match prec {
        None => {
            let h = f64::from_str(toks[0]);
            let l = f64::from_str(toks[2]);
            check!(ctx, h.as_ref().map(|v| v.to_bits()) == Ok(x.hi.to_bits()), "{what}: first numeral {:?} does not parse back to hi", toks[0]);
            check!(ctx, l.as_ref().map(|v| v.to_bits()) == Ok(x.lo.abs().to_bits()), "{what}: last numeral {:?} does not parse back to |lo|", toks[2]);
            // and it is the f64 rendering with the same trait/flags
            check!(ctx, toks[0] == fmt_f64(x.hi, tr, plus, None) && toks[2] == fmt_f64(x.lo.abs(), tr, false, None), "{what}: numerals {:?} / {:?} are not the f64 renderings", toks[0], toks[2]);
        }
        Some(p) => {
            check!(ctx, toks[0] == fmt_f64(x.hi, tr, plus, Some(p)), "{what}: first numeral {:?} is not the f64 rendering {:?}", toks[0], fmt_f64(x.hi, tr, plus, Some(p)));
            check!(ctx, toks[2] == fmt_f64(x.lo.abs(), tr, false, Some(p)), "{what}: last numeral {:?} is not the f64 rendering {:?}", toks[2], fmt_f64(x.lo.abs(), tr, false, Some(p)));
        }
    }
    if plus {
        check!(ctx, toks[0].starts_with('+') || toks[0].starts_with('-'), "{what}: first numeral {:?} has no explicit sign", toks[0]);
    }
    if tr == 2 {
        check!(ctx, !s.contains('e'), "{what}: UpperExp output {:?} contains a lower-case exponent marker", s);
    }
    if tr == 1 {
        check!(ctx, !s.contains('E'), "{what}: LowerExp output {:?} contains an upper-case exponent marker", s);
    }
    ctx.set_nontrivial(x.lo != 0.0);
}

fn de_seq(hi: f64, lo: f64) -> Result<TwoFloat, DeError> {
    let d: SeqDeserializer<_, DeError> = SeqDeserializer::new(vec![hi, lo].into_iter());
    TwoFloat::deserialize(d)
}
fn de_seq_n(v: Vec<f64>) -> Result<TwoFloat, DeError> {
    let d: SeqDeserializer<_, DeError> = SeqDeserializer::new(v.into_iter());
    TwoFloat::deserialize(d)
}
fn de_map(fields: Vec<(&'static str, f64)>) -> Result<TwoFloat, DeError> {
    let d: MapDeserializer<_, DeError> = MapDeserializer::new(fields.into_iter());
    TwoFloat::deserialize(d)
}

/// A minimal NON-self-describing ("positional", bincode / postcard style) format: a struct is the
/// plain sequence of its fields, and the deserializer hands the visitor exactly `fields.len()`
/// elements - the list passed to `deserialize_struct` matters here, unlike for serde_json.
mod positional {
    use serde::de::{self, DeserializeSeed, SeqAccess, Visitor};
    pub struct De<'a> {
        pub data: &'a [f64],
        pub pos: usize,
    }
    #[derive(Debug)]
    pub struct Error(pub String);
    impl std::fmt::Display for Error {
        fn fmt(&self, f: &mut std::fmt::Formatter) -> std::fmt::Result {
            write!(f, "{}", self.0)
        }
    }
    impl std::error::Error for Error {}
    impl de::Error for Error {
        fn custom<T: std::fmt::Display>(m: T) -> Self {
            Error(m.to_string())
        }
    }
    struct Seq<'b, 'a> {
        de: &'b mut De<'a>,
        left: usize,
    }
    impl<'de, 'b, 'a> SeqAccess<'de> for Seq<'b, 'a> {
        type Error = Error;
        fn next_element_seed<T: DeserializeSeed<'de>>(&mut self, seed: T) -> Result<Option<T::Value>, Error> {
            if self.left == 0 {
                return Ok(None);
            }
            self.left -= 1;
            seed.deserialize(&mut *self.de).map(Some)
        }
        fn size_hint(&self) -> Option<usize> {
            Some(self.left)
        }
    }
    impl<'de, 'b, 'a> de::Deserializer<'de> for &'b mut De<'a> {
        type Error = Error;
        fn deserialize_any<V: Visitor<'de>>(self, _v: V) -> Result<V::Value, Error> {
            Err(Error("positional format is not self-describing".into()))
        }
        fn deserialize_f64<V: Visitor<'de>>(self, v: V) -> Result<V::Value, Error> {
            let x = *self.data.get(self.pos).ok_or_else(|| Error("out of data".into()))?;
            self.pos += 1;
            v.visit_f64(x)
        }
        fn deserialize_struct<V: Visitor<'de>>(self, _name: &'static str, fields: &'static [&'static str], v: V) -> Result<V::Value, Error> {
            let n = fields.len();
            v.visit_seq(Seq { de: self, left: n })
        }
        fn deserialize_tuple<V: Visitor<'de>>(self, len: usize, v: V) -> Result<V::Value, Error> {
            v.visit_seq(Seq { de: self, left: len })
        }
        serde::forward_to_deserialize_any! {
            bool i8 i16 i32 i64 i128 u8 u16 u32 u64 u128 f32 char str string bytes byte_buf option unit unit_struct
            newtype_struct seq tuple_struct map enum identifier ignored_any
        }
    }
}

/// A map format that hands the entries to the visitor one by one and does NOT verify afterwards
/// that the visitor consumed them all (streaming formats cannot): whether a trailing duplicate or
/// unknown entry is rejected is then entirely up to the visitor.  (serde's MapDeserializer and
/// serde_json both check for left-over input themselves and so hide a visitor that stops early.)
mod lenient_map {
    use super::positional::Error;
    use serde::de::{self, value::StrDeserializer, DeserializeSeed, IntoDeserializer, MapAccess, Visitor};
    pub struct De {
        pub entries: Vec<(&'static str, f64)>,
        pub pos: usize,
        pub pulled: usize,
    }
    impl<'de, 'a> MapAccess<'de> for &'a mut De {
        type Error = Error;
        fn next_key_seed<K: DeserializeSeed<'de>>(&mut self, seed: K) -> Result<Option<K::Value>, Error> {
            match self.entries.get(self.pos) {
                None => Ok(None),
                Some((k, _)) => {
                    self.pulled += 1;
                    let d: StrDeserializer<Error> = (*k).into_deserializer();
                    seed.deserialize(d).map(Some)
                }
            }
        }
        fn next_value_seed<V: DeserializeSeed<'de>>(&mut self, seed: V) -> Result<V::Value, Error> {
            let v = self.entries[self.pos].1;
            self.pos += 1;
            let d: de::value::F64Deserializer<Error> = v.into_deserializer();
            seed.deserialize(d)
        }
    }
    impl<'de, 'a> de::Deserializer<'de> for &'a mut De {
        type Error = Error;
        fn deserialize_any<V: Visitor<'de>>(self, v: V) -> Result<V::Value, Error> {
            v.visit_map(self)
        }
        serde::forward_to_deserialize_any! {
            bool i8 i16 i32 i64 i128 u8 u16 u32 u64 u128 f32 f64 char str string bytes byte_buf option unit unit_struct
            newtype_struct seq tuple tuple_struct map struct enum identifier ignored_any
        }
    }
}

/// entries through the lenient map format
fn de_lenient(entries: Vec<(&'static str, f64)>) -> Result<TwoFloat, String> {
    let mut d = lenient_map::De { entries, pos: 0, pulled: 0 };
    TwoFloat::deserialize(&mut d).map_err(|e| e.to_string())
}

fn c20_serde_roundtrip(ctx: &mut Ctx) {
    let x = dd_all(ctx);
    x.key(ctx);
    note_dd(ctx, "x", x);
    let t = x.tf();
    // shape of the serialised form: struct TwoFloat { hi, lo }
    let shape = guard(|| {
        serde_test::assert_ser_tokens(
            &t,
            &[
                serde_test::Token::Struct { name: "TwoFloat", len: 2 },
                serde_test::Token::Str("hi"),
                serde_test::Token::F64(x.hi),
                serde_test::Token::Str("lo"),
                serde_test::Token::F64(x.lo),
                serde_test::Token::StructEnd,
            ],
        )
    });
    check!(ctx, shape.is_ok(), "Serialize of {} is not struct TwoFloat {{ hi, lo }}: {:?}", x.show(), shape.err());
    // a positional (non-self-describing) format: the struct is its two fields in order
    {
        let words = [x.hi, x.lo];
        let back = guard(|| {
            let mut d = positional::De { data: &words, pos: 0 };
            TwoFloat::deserialize(&mut d).map(Dd::of).map_err(|e| e.to_string())
        });
        match back {
            Ok(Ok(d)) => check!(ctx, same_dd(d, x), "positional format: {} read back as {}", x.show(), d.show()),
            Ok(Err(e)) => ctx.fail(format!("positional format (struct = its fields in order): {} could not be read back: {e}", x.show())),
            Err(m) => ctx.fail(format!("positional format: deserialising {} panicked: {m}", x.show())),
        }
    }
    // exact words through serde_json's value tree
    match serde_json::to_value(t) {
        Ok(v) => {
            let h = v.get("hi").and_then(|n| n.as_f64());
            let l = v.get("lo").and_then(|n| n.as_f64());
            let nfields = v.as_object().map_or(0, |o| o.len());
            check!(ctx, nfields == 2 && h.map(f64::to_bits) == Some(x.hi.to_bits()) && l.map(f64::to_bits) == Some(x.lo.to_bits()), "serialised value {} does not carry the words of {}", v, x.show());
            let back = serde_json::from_value::<TwoFloat>(v.clone()).map(Dd::of);
            check!(ctx, back.as_ref().ok().map(|d| same_dd(*d, x)) == Some(true), "deserialising {} gave {:?}, expected {}", v, back.map(|d| d.show()), x.show());
        }
        Err(e) => ctx.fail(format!("to_value failed: {e}")),
    }
    // JSON text, both field orders and the sequence form
    match serde_json::to_string(&t) {
        Ok(text) => {
            ctx.note("json", || text.clone());
            let back = serde_json::from_str::<TwoFloat>(&text).map(Dd::of);
            check!(ctx, back.as_ref().ok().map(|d| same_dd(*d, x)) == Some(true), "JSON {} read back as {:?}", text, back.map(|d| d.show()));
            // swap the field order textually
            if let Ok(serde_json::Value::Object(o)) = serde_json::from_str::<serde_json::Value>(&text) {
                let swapped = format!("{{\"lo\":{},\"hi\":{}}}", o["lo"], o["hi"]);
                let back = serde_json::from_str::<TwoFloat>(&swapped).map(Dd::of);
                check!(ctx, back.as_ref().ok().map(|d| same_dd(*d, x)) == Some(true), "JSON {} (lo first) read back as {:?}", swapped, back.map(|d| d.show()));
                let seq = format!("[{},{}]", o["hi"], o["lo"]);
                let back = serde_json::from_str::<TwoFloat>(&seq).map(Dd::of);
                check!(ctx, back.as_ref().ok().map(|d| same_dd(*d, x)) == Some(true), "JSON {} (sequence) read back as {:?}", seq, back.map(|d| d.show()));
            }
        }
        Err(e) => ctx.fail(format!("to_string failed: {e}")),
    }
    // serde data model directly: seq, map hi/lo, map lo/hi
    for (name, r) in [
        ("seq", de_seq(x.hi, x.lo)),
        ("map hi,lo", de_map(vec![("hi", x.hi), ("lo", x.lo)])),
        ("map lo,hi", de_map(vec![("lo", x.lo), ("hi", x.hi)])),
    ] {
        let back = r.map(Dd::of);
        check!(ctx, back.as_ref().ok().map(|d| same_dd(*d, x)) == Some(true), "deserialising {} as {name} gave {:?}", x.show(), back.map(|d| d.show()).map_err(|e| e.to_string()));
    }
    ctx.set_nontrivial(x.lo != 0.0);
}

/// arbitrary (hi, lo) word pairs presented to the deserializer: Ok <=> valid, words preserved
fn c20_serde_arbitrary(ctx: &mut Ctx) {
    let hi = f64_any(ctx);
    let lo = {
        let c = ctx.weighted(&[5, 3, 1]);
        match c {
            0 => {
                // around the overlap threshold of hi
                if hi.is_finite() && hi != 0.0 && exponent(hi) - 53 >= -1074 {
                    let h = oracle::big::pow2_f64(exponent(hi) - 53);
                    let v = step(h, ctx.range(-4, 4)) * [1.0, 0.5, 2.0][ctx.below(3) as usize];
                    if ctx.flag() {
                        -v
                    } else {
                        v
                    }
                } else {
                    f64_any(ctx)
                }
            }
            1 => f64_any(ctx),
            _ => 0.0,
        }
    };
    ctx.key_f64(hi);
    ctx.key_f64(lo);
    note_f(ctx, "hi", hi);
    note_f(ctx, "lo", lo);
    let want = Dd::new(hi, lo).valid();
    let shapes: Vec<(&str, Result<TwoFloat, DeError>)> = vec![
        ("seq", de_seq(hi, lo)),
        ("map hi,lo", de_map(vec![("hi", hi), ("lo", lo)])),
        ("map lo,hi", de_map(vec![("lo", lo), ("hi", hi)])),
    ];
    for (name, r) in shapes {
        match r {
            Ok(t) => {
                let d = Dd::of(t);
                check!(ctx, want, "deserialising the overlapping / non-finite pair ({}, {}) as {name} produced the TwoFloat {}", showf(hi), showf(lo), d.show());
                check!(ctx, d.hi.to_bits() == hi.to_bits() && d.lo.to_bits() == lo.to_bits(), "deserialising ({}, {}) as {name} changed the words: {}", showf(hi), showf(lo), d.show());
            }
            Err(e) => check!(ctx, !want, "deserialising the valid pair ({}, {}) as {name} failed: {e}", showf(hi), showf(lo)),
        }
    }
    // the in-place entry point (`Deserialize::deserialize_in_place`, used by serde when a Vec, an
    // array, an Option or a tuple is refilled): the destination starts as a valid value and must be
    // a valid value afterwards, whether the call succeeds or not; on success it carries the words
    {
        let start = TwoFloat::from(0.75);
        let shapes: Vec<(&str, Box<dyn Fn(&mut TwoFloat) -> Result<(), DeError>>)> = vec![
            ("seq", Box::new(move |p: &mut TwoFloat| {
                let d: SeqDeserializer<_, DeError> = SeqDeserializer::new(vec![hi, lo].into_iter());
                serde::Deserialize::deserialize_in_place(d, p)
            })),
            ("map hi,lo", Box::new(move |p: &mut TwoFloat| {
                let d: MapDeserializer<_, DeError> = MapDeserializer::new(vec![("hi", hi), ("lo", lo)].into_iter());
                serde::Deserialize::deserialize_in_place(d, p)
            })),
            ("map lo,hi", Box::new(move |p: &mut TwoFloat| {
                let d: MapDeserializer<_, DeError> = MapDeserializer::new(vec![("lo", lo), ("hi", hi)].into_iter());
                serde::Deserialize::deserialize_in_place(d, p)
            })),
            ("one-element seq", Box::new(move |p: &mut TwoFloat| {
                let d: SeqDeserializer<_, DeError> = SeqDeserializer::new(vec![hi].into_iter());
                serde::Deserialize::deserialize_in_place(d, p)
            })),
            ("map with duplicate lo", Box::new(move |p: &mut TwoFloat| {
                let d: MapDeserializer<_, DeError> = MapDeserializer::new(vec![("hi", hi), ("lo", lo), ("lo", 0.0)].into_iter());
                serde::Deserialize::deserialize_in_place(d, p)
            })),
        ];
        for (name, f) in shapes.iter() {
            let mut place = start;
            match guard(|| f(&mut place)) {
                Err(m) => ctx.fail(format!("deserialize_in_place ({name}) of ({}, {}) panicked: {m}", showf(hi), showf(lo))),
                Ok(r) => {
                    let d = Dd::of(place);
                    check!(ctx, d.valid(), "deserialize_in_place ({name}) of ({}, {}) returned {} and left the destination holding the invalid {}", showf(hi), showf(lo), if r.is_ok() { "Ok" } else { "an error" }, d.show());
                    if r.is_ok() {
                        check!(ctx, want && !name.contains("one-element") && !name.contains("duplicate"), "deserialize_in_place ({name}) accepted ({}, {})", showf(hi), showf(lo));
                        check!(ctx, d.hi.to_bits() == hi.to_bits() && d.lo.to_bits() == lo.to_bits(), "deserialize_in_place ({name}) of ({}, {}) stored {}", showf(hi), showf(lo), d.show());
                    } else if *name == "seq" || name.starts_with("map hi") || name.starts_with("map lo") {
                        check!(ctx, !want, "deserialize_in_place ({name}) refused the valid pair ({}, {})", showf(hi), showf(lo));
                    }
                }
            }
        }
    }
    // Num::from_str_radix on the text the crate itself would print for these words ("<hi> + <|lo|>"):
    // whatever it answers (it refuses everything today), it must not hand out an invalid value
    {
        let sign = if lo.is_sign_negative() { '-' } else { '+' };
        for text in [format!("{} {} {}", hi, sign, lo.abs()), format!("{:e} {} {:e}", hi, sign, lo.abs())] {
            match guard(|| <TwoFloat as num_traits::Num>::from_str_radix(&text, 10)) {
                Err(m) => ctx.fail(format!("from_str_radix({text:?}) panicked: {m}")),
                Ok(Ok(t)) => {
                    let d = Dd::of(t);
                    check!(ctx, d.valid(), "Num::from_str_radix({text:?}, 10) returned the invalid TwoFloat {}", d.show());
                    check!(ctx, want, "Num::from_str_radix({text:?}, 10) accepted the words of an overlapping / non-finite pair as {}", d.show());
                }
                Ok(Err(_)) => {}
            }
        }
    }
    // JSON text for finite words
    if hi.is_finite() && lo.is_finite() {
        let text = format!("{{\"hi\":{:e},\"lo\":{:e}}}", hi, lo);
        let r = serde_json::from_str::<TwoFloat>(&text);
        check!(ctx, r.is_ok() == want, "JSON {} deserialised ok = {} but validity of the pair is {}", text, r.is_ok(), want);
        if let Ok(t) = r {
            check!(ctx, t.hi().to_bits() == hi.to_bits() && t.lo() == lo, "JSON {} changed the words: {}", text, Dd::of(t).show());
        }
        let text = format!("[{:e},{:e}]", hi, lo);
        let r = serde_json::from_str::<TwoFloat>(&text);
        check!(ctx, r.is_ok() == want, "JSON {} deserialised ok = {} but validity of the pair is {}", text, r.is_ok(), want);
    }
    let near = hi.is_finite() && hi != 0.0 && lo.is_finite() && lo != 0.0 && (exponent(lo) - (exponent(hi) - 53)).abs() <= 2;
    ctx.set_nontrivial(near || !hi.is_finite() || !lo.is_finite());
}

/// malformed shapes are rejected
fn c20_serde_malformed(ctx: &mut Ctx) {
    let x = dd_all(ctx);
    let which = ctx.below(9);
    x.key(ctx);
    ctx.key_u64(which);
    note_dd(ctx, "x", x);
    let (mut h, mut l) = (x.hi, x.lo);
    // the extra / duplicated entries may carry any f64 class (NaN and inf included): a visitor that
    // uses a special value as its "not seen yet" marker must still reject the shape
    let (h2, l2) = (f64_any(ctx), f64_any(ctx));
    if ctx.chance(1, 3) {
        h = f64_any(ctx);
    }
    if ctx.chance(1, 3) {
        l = f64_any(ctx);
    }
    ctx.key_f64(h);
    ctx.key_f64(l);
    ctx.key_f64(h2);
    ctx.key_f64(l2);
    ctx.note("words", || format!("hi {} lo {} extra {} {}", showf(h), showf(l), showf(h2), showf(l2)));
    let (name, r): (&str, Result<TwoFloat, String>) = match which {
        0 => ("map without lo", de_map(vec![("hi", h)]).map_err(|e| e.to_string())),
        1 => ("map without hi", de_map(vec![("lo", l)]).map_err(|e| e.to_string())),
        2 => {
            if ctx.flag() {
                ("duplicate hi", de_map(vec![("hi", h), ("hi", h2), ("lo", l)]).map_err(|e| e.to_string()))
            } else {
                ("duplicate hi (after lo)", de_map(vec![("hi", h), ("lo", l), ("hi", h2)]).map_err(|e| e.to_string()))
            }
        }
        3 => {
            if ctx.flag() {
                ("duplicate lo", de_map(vec![("hi", h), ("lo", l), ("lo", l2)]).map_err(|e| e.to_string()))
            } else {
                ("duplicate lo (before hi)", de_map(vec![("lo", l), ("lo", l2), ("hi", h)]).map_err(|e| e.to_string()))
            }
        }
        4 => {
            // names that are not exactly "hi" / "lo": other words, other case, padded, truncated
            const NAMES: [&str; 16] = ["mid", "HI", "Hi", "hI", "LO", "Lo", "lO", "hi ", " lo", "h", "l", "high", "low", "hi\0", "hilo", ""];
            let nm = NAMES[ctx.below(16) as usize];
            match ctx.below(3) {
                0 => ("unknown field (third entry)", de_map(vec![("hi", h), ("lo", l), (nm, h2)]).map_err(|e| e.to_string())),
                1 => ("unknown field in place of hi", de_map(vec![(nm, h), ("lo", l)]).map_err(|e| e.to_string())),
                _ => ("unknown field in place of lo", de_map(vec![("hi", h), (nm, l)]).map_err(|e| e.to_string())),
            }
        }
        5 if ctx.flag() => {
            // exactly TWO entries with the same name (the values would form a valid pair)
            match ctx.below(4) {
                0 => ("two entries, both hi", de_map(vec![("hi", x.hi), ("hi", x.lo)]).map_err(|e| e.to_string())),
                1 => ("two entries, both lo", de_map(vec![("lo", x.lo), ("lo", x.hi)]).map_err(|e| e.to_string())),
                2 => ("two entries, both lo (hi first)", de_map(vec![("lo", x.hi), ("lo", x.lo)]).map_err(|e| e.to_string())),
                _ => ("two entries, both hi (lo first)", de_map(vec![("hi", x.lo), ("hi", x.hi)]).map_err(|e| e.to_string())),
            }
        }
        5 => ("one-element sequence", de_seq_n(vec![h]).map_err(|e| e.to_string())),
        6 => ("empty sequence", de_seq_n(vec![]).map_err(|e| e.to_string())),
        7 => ("JSON duplicate field", serde_json::from_str::<TwoFloat>(&format!("{{\"hi\":{:e},\"lo\":{:e},\"lo\":{:e}}}", x.hi, x.lo, x.lo)).map_err(|e| e.to_string())),
        _ => ("JSON unknown field", serde_json::from_str::<TwoFloat>(&format!("{{\"hi\":{:e},\"lo\":{:e},\"x\":1}}", x.hi, x.lo)).map_err(|e| e.to_string())),
    };
    ctx.note("shape", || name.to_string());
    check!(ctx, r.is_err(), "malformed input ({name}) for {} was accepted as {:?}", x.show(), r.as_ref().ok().map(|t| Dd::of(*t).show()));
    ctx.set_nontrivial(true);
    // the same kinds of entries after BOTH fields have been seen, through a format that does not
    // itself complain about entries the visitor leaves unread
    {
        let tail: (&'static str, f64) = [("hi", h2), ("lo", l2), ("mid", h2), ("x", l2)][(which % 4) as usize];
        let first = if which & 4 == 0 { vec![("hi", x.hi), ("lo", x.lo), tail] } else { vec![("lo", x.lo), ("hi", x.hi), tail] };
        match guard(|| de_lenient(first.clone())) {
            Err(m) => ctx.fail(format!("deserialising the map {:?} panicked: {m}", first)),
            Ok(r) => check!(ctx, r.is_err(), "the map {:?} (a duplicate or unknown entry after both fields; format without a left-over check) was accepted as {:?}", first, r.as_ref().ok().map(|t| Dd::of(*t).show())),
        }
        // the lenient format must still accept the well-formed map
        let good = vec![("hi", x.hi), ("lo", x.lo)];
        if x.valid() {
            let r = guard(|| de_lenient(good)).ok().and_then(|r| r.ok()).map(Dd::of);
            check!(ctx, r.map(|d| same_dd(d, x)) == Some(true), "the map hi, lo of {} through the lenient format gave {:?}", x.show(), r.map(|d| d.show()));
        }
    }
    other_key_types(ctx, x, h2);
}

/// Maps whose keys are not strings: field INDICES (u64, as index-keyed formats hand them over)
/// and BYTE strings.  A deserializer may refuse such keys altogether (the crate does today); if
/// it accepts them, a map is acceptable only when its keys are exactly {0, 1} resp. {b"hi",
/// b"lo"}, once each - anything else has a missing, duplicate or unknown field and must be
/// rejected - and an accepted map must carry the words over (0 / "hi" = high word).
fn other_key_types(ctx: &mut Ctx, x: Dd, extra: f64) {
    let n = 1 + ctx.below(3) as usize;
    let vals = [x.hi, x.lo, extra];
    let judge = |ctx: &mut Ctx, what: String, exact: Option<(f64, f64)>, r: Result<Result<TwoFloat, String>, String>| match r {
        Err(m) => ctx.fail(format!("deserialising {what} panicked: {m}")),
        Ok(Err(_)) => {}
        Ok(Ok(t)) => match exact {
            None => ctx.fail(format!("{what} has a missing, duplicate or unknown field but was accepted as {}", Dd::of(t).show())),
            Some((h, l)) => {
                check!(ctx, Dd::of(t).valid(), "{what} deserialised into the invalid {}", Dd::of(t).show());
                check!(ctx, same_word(t.hi(), h) && same_word(t.lo(), l), "{what} changed the words: {}", Dd::of(t).show());
            }
        },
    };
    if ctx.flag() {
        const POOL: [u64; 6] = [0, 1, 2, 7, u64::MAX, 1];
        let keys: Vec<u64> = (0..n).map(|_| POOL[ctx.below(6) as usize]).collect();
        let fields: Vec<(u64, f64)> = keys.iter().cloned().zip(vals.iter().cloned()).collect();
        let exact = if n == 2 && keys.contains(&0) && keys.contains(&1) { Some(if keys[0] == 0 { (vals[0], vals[1]) } else { (vals[1], vals[0]) }) } else { None };
        let what = format!("a map keyed by the field indices {:?} with values {:?}", keys, &vals[..n]);
        let r = guard(|| {
            let d: MapDeserializer<_, DeError> = MapDeserializer::new(fields.into_iter());
            TwoFloat::deserialize(d).map_err(|e| e.to_string())
        });
        ctx.label("keys:u64");
        judge(ctx, what, exact, r);
    } else {
        const POOL: [&[u8]; 8] = [b"hi", b"lo", b"HI", b"h", b"hi\0", b"lox", b"", b"lo"];
        let keys: Vec<&'static [u8]> = (0..n).map(|_| POOL[ctx.below(8) as usize]).collect();
        let fields: Vec<(&'static [u8], f64)> = keys.iter().cloned().zip(vals.iter().cloned()).collect();
        let exact = if n == 2 && keys.contains(&&b"hi"[..]) && keys.contains(&&b"lo"[..]) { Some(if keys[0] == b"hi" { (vals[0], vals[1]) } else { (vals[1], vals[0]) }) } else { None };
        let what = format!("a map keyed by the byte strings {:?} with values {:?}", keys.iter().map(|k| String::from_utf8_lossy(k).into_owned()).collect::<Vec<_>>(), &vals[..n]);
        let r = guard(|| {
            let d: MapDeserializer<_, DeError> = MapDeserializer::new(fields.into_iter());
            TwoFloat::deserialize(d).map_err(|e| e.to_string())
        });
        ctx.label("keys:bytes");
        judge(ctx, what, exact, r);
    }
}


/// Input that is neither a two-element sequence nor a map: a bare number of any class (f64,
/// f32, integers), bool, string, unit, option, a longer sequence.  Whatever the deserializer
/// makes of it, it must not hand out an invalid TwoFloat, and a non-finite bare number must be
/// rejected ("input whose words ... are non-finite ... is rejected with an error").
fn c20_serde_other_shapes(ctx: &mut Ctx) {
    use serde::de::IntoDeserializer;
    let v = f64_any(ctx);
    let which = ctx.below(11);
    ctx.key_f64(v);
    ctx.key_u64(which);
    ctx.note("value", || showf(v));
    type E = DeError;
    let (name, r): (&str, Result<Result<TwoFloat, String>, String>) = match which {
        0 => ("bare f64", guard(|| TwoFloat::deserialize(IntoDeserializer::<E>::into_deserializer(v)).map_err(|e| e.to_string()))),
        1 => ("bare f32", guard(|| TwoFloat::deserialize(IntoDeserializer::<E>::into_deserializer(v as f32)).map_err(|e| e.to_string()))),
        2 => ("bare i64", guard(|| TwoFloat::deserialize(IntoDeserializer::<E>::into_deserializer(v as i64)).map_err(|e| e.to_string()))),
        3 => ("bare u64", guard(|| TwoFloat::deserialize(IntoDeserializer::<E>::into_deserializer(v as u64)).map_err(|e| e.to_string()))),
        4 => ("bool", guard(|| TwoFloat::deserialize(IntoDeserializer::<E>::into_deserializer(v > 0.0)).map_err(|e| e.to_string()))),
        5 => ("string", guard(|| TwoFloat::deserialize(IntoDeserializer::<E>::into_deserializer(format!("{v:e}"))).map_err(|e| e.to_string()))),
        6 => ("unit", guard(|| TwoFloat::deserialize(IntoDeserializer::<E>::into_deserializer(())).map_err(|e| e.to_string()))),
        7 => ("three-element sequence", guard(|| de_seq_n(vec![v, 0.0, 0.0]).map_err(|e| e.to_string()))),
        8 => ("JSON bare number", guard(|| serde_json::from_str::<TwoFloat>(&format!("{v:e}")).map_err(|e| e.to_string()))),
        9 => ("JSON null", guard(|| serde_json::from_str::<TwoFloat>("null").map_err(|e| e.to_string()))),
        _ => ("JSON nested", guard(|| serde_json::from_str::<TwoFloat>(&format!("[[{v:e},0.0]]")).map_err(|e| e.to_string()))),
    };
    ctx.note("shape", || name.to_string());
    match r {
        Err(m) => ctx.fail(format!("deserialising a {name} ({}) panicked: {m}", showf(v))),
        Ok(Ok(t)) => {
            let d = Dd::of(t);
            check!(ctx, d.valid(), "a {name} ({}) deserialised into the invalid TwoFloat {}", showf(v), d.show());
        }
        Ok(Err(_)) => {}
    }
    ctx.set_nontrivial(!v.is_finite() || which >= 4);
}

/// Checks one JSON text against the deserializer: whatever deserialises must be a valid pair, and
/// when the text is an object/array carrying exactly two finite numbers under hi/lo the outcome is
/// decided completely (Ok <=> valid, words preserved).
fn check_json_text(ctx: &mut Ctx, text: &str) {
    let r = match guard(|| serde_json::from_str::<TwoFloat>(text)) {
        Ok(r) => r,
        Err(m) => {
            ctx.fail(format!("deserialising {:?} panicked: {m}", text));
            return;
        }
    };
    if let Ok(t) = &r {
        let d = Dd::of(*t);
        ctx.label("json:accepted");
        check!(ctx, d.valid(), "JSON {:?} deserialised into the invalid TwoFloat {}", text, d.show());
        ctx.set_nontrivial(true);
    }
    // reference model on the generic value tree
    if let Ok(v) = serde_json::from_str::<serde_json::Value>(text) {
        ctx.label("json:well-formed");
        let words: Option<(f64, f64)> = match &v {
            serde_json::Value::Array(a) if a.len() == 2 => a[0].as_f64().zip(a[1].as_f64()),
            serde_json::Value::Object(o) if o.len() == 2 => o.get("hi").and_then(|x| x.as_f64()).zip(o.get("lo").and_then(|x| x.as_f64())),
            _ => None,
        };
        let dup = text.matches("\"hi\"").count() > 1 || text.matches("\"lo\"").count() > 1;
        if let (Some((h, l)), false) = (words, dup) {
            let want = Dd::new(h, l).valid();
            ctx.label("json:two-numbers");
            check!(ctx, r.is_ok() == want, "JSON {:?}: deserialised ok = {} but the pair ({}, {}) valid = {}", text, r.is_ok(), showf(h), showf(l), want);
            if let Ok(t) = &r {
                check!(ctx, t.hi() == h && t.lo() == l, "JSON {:?} changed the words: {}", text, Dd::of(*t).show());
            }
            ctx.set_nontrivial(true);
        }
    }
}

/// grammar-level generation: each item selects a token; numbers come from the f64 classes
fn c20_json_grammar(ctx: &mut Ctx) {
    let items: Vec<[u64; 4]> = ctx.items.to_vec();
    let mut text = String::new();
    let shape = ctx.below(4);
    // start from a canonical skeleton most of the time so that accepted inputs are common
    if shape < 3 {
        let cw = crate::engine::CaseWords { head: (0..24).map(|i| items.first().map_or(i as u64, |it| it[i % 4].rotate_left(i as u32 * 5))).collect(), items: vec![] };
        let mut c2 = Ctx::new(&cw, &[]);
        let hi = f64_any(&mut c2);
        let lo = if hi.is_finite() && hi != 0.0 && c2.chance(2, 3) { low_word(&mut c2, if exponent(hi) >= -1022 { hi } else { 1.0 }) } else { f64_any(&mut c2) };
        let num = |x: f64| if x.is_finite() { format!("{:e}", x) } else { "1e999".to_string() };
        text = match shape {
            0 => format!("{{\"hi\":{},\"lo\":{}}}", num(hi), num(lo)),
            1 => format!("{{\"lo\":{},\"hi\":{}}}", num(lo), num(hi)),
            _ => format!("[{},{}]", num(hi), num(lo)),
        };
    }
    // then splice tokens chosen by the items (insert / replace / append)
    const TOK: [&str; 22] = ["{", "}", "[", "]", ":", ",", "\"hi\"", "\"lo\"", "\"x\"", "null", "true", "1e999", "-0.0", "0", "1", "1.5e-17", "\"hi\":1", "\"lo\":0", " ", "1e-400", "5e-324", "\"\""];
    let nsplice = if items.len() > 1 && items[0][3] % 3 == 0 { items.len() - 1 } else { 0 };
    for it in items.iter().skip(1).take(nsplice.min(if items.first().map_or(0, |i| i[3] % 5) < 3 { 1 } else { 8 })) {
        let tok = TOK[(it[0] % TOK.len() as u64) as usize];
        let pos = if text.is_empty() { 0 } else { (it[1] % (text.len() as u64 + 1)) as usize };
        let pos = (0..=pos).rev().find(|p| text.is_char_boundary(*p)).unwrap_or(0);
        match it[2] % 3 {
            0 => text.insert_str(pos, tok),
            1 => text.push_str(tok),
            _ => {
                let end = (pos + tok.len()).min(text.len());
                let end = (end..=text.len()).find(|p| text.is_char_boundary(*p)).unwrap_or(text.len());
                text.replace_range(pos..end, tok);
            }
        }
    }
    for b in text.bytes() {
        ctx.key_u64(b as u64);
    }
    ctx.note("json", || text.clone());
    check_json_text(ctx, &text);
}

/// raw bytes (libFuzzer target c20_json and its replays; the proptest runner gives it no budget)
fn c20_json_bytes(ctx: &mut Ctx) {
    let mut bytes = Vec::new();
    for _ in 0..64 {
        bytes.extend_from_slice(&ctx.word().to_le_bytes());
    }
    while bytes.last() == Some(&0) {
        bytes.pop();
    }
    for b in &bytes {
        ctx.key_u64(*b as u64);
    }
    let text = String::from_utf8_lossy(&bytes).to_string();
    ctx.note("json", || text.clone());
    check_json_text(ctx, &text);
}

/// IntoDeserializer sanity so that the f64 tokens are really exact (guards the harness itself)
#[allow(dead_code)]
fn _f64_tokens_are_exact() {
    let _d: serde::de::value::F64Deserializer<DeError> = 1.0f64.into_deserializer();
}

pub fn c20() -> Property {
    let g = |name, eval, quick, thorough| SubCheck { name, kind: Kind::Generated { words: 32, max_items: 0 }, eval, quick, thorough };
    Property {
        id: "C20",
        rule: "format: valid values over the whole range (incl. -0.0 and subnormal low words, exponents needing 300-digit decimals) x {Display, LowerExp, UpperExp} x {plain, +} x {no precision, .0-.40 (mostly), .41-.1100, and the values around 767, 1023, 1074, 2000, 4096, 65535}; serde: valid values through serde_test tokens, serde_json value tree, JSON text (both field orders, sequence) and serde's SeqDeserializer/MapDeserializer; arbitrary (hi, lo) word pairs (any class, lo within ±4 ulps of the half/quarter/full-ulp thresholds, inf, NaN) in all three shapes; nine malformed shapes; eleven other shapes (bare f64/f32/i64/u64 of any class, bool, string, unit, longer or nested sequences, JSON null) that must never yield an invalid value. non-trivial = non-zero low word (format, round trip), pair within 2 binades of the threshold or non-finite (arbitrary), every malformed case; distinct = distinct (value, format) / word pairs",
        assumptions: vec!["f64::from_str and the f64 Display/LowerExp/UpperExp of the Rust standard library (used to parse numerals back and as the reference rendering)".into(), "serde's data model (serde::de::value deserializers, serde_test tokens) and serde_json with float_roundtrip".into()],
        subchecks: vec![
            g("format", c20_format, 400_000, 10_000_000),
            g("serde_roundtrip", c20_serde_roundtrip, 200_000, 5_000_000),
            g("serde_arbitrary", c20_serde_arbitrary, 400_000, 10_000_000),
            g("serde_malformed", c20_serde_malformed, 100_000, 2_000_000),
            g("serde_other_shapes", c20_serde_other_shapes, 100_000, 2_000_000),
            SubCheck { name: "json_grammar", kind: Kind::Generated { words: 2, max_items: 8 }, eval: c20_json_grammar, quick: 200_000, thorough: 5_000_000 },
            SubCheck { name: "json_bytes", kind: Kind::Generated { words: 64, max_items: 0 }, eval: c20_json_bytes, quick: 0, thorough: 0 },
        ],
    }
}
