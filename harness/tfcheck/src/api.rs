//! One table of public entry points that produce a TwoFloat, instantiated for BOTH builds
//! of the crate (default features = `twofloat`, no_std + libm fma = `tf_nostd`).
//! Every entry maps plain words to plain words, so the two instantiations are comparable.

#[derive(Clone, Copy, Debug)]
pub struct Args {
    pub a: (f64, f64),
    pub b: (f64, f64),
    pub c: (f64, f64),
    pub f: f64,
    pub g: f64,
    pub n: i32,
    pub i: i128,
}

pub type Out = Vec<(f64, f64)>;

#[derive(Clone, Copy, PartialEq, Eq, Debug)]
pub enum Uses {
    /// only f, g (f64 constructors)
    FF,
    /// a only
    A,
    /// a and b
    AB,
    /// a and f
    AF,
    /// a and n
    AN,
    /// integer i
    I,
    /// a, b, c
    ABC,
    /// nothing (constants)
    None,
}

#[derive(Clone, Copy)]
pub struct Entry {
    pub name: &'static str,
    pub uses: Uses,
    pub uses_fma: bool,
    pub f: fn(&Args) -> Out,
}

macro_rules! e {
    ($n:literal, $u:ident, $fma:literal, $body:expr) => {
        Entry { name: $n, uses: Uses::$u, uses_fma: $fma, f: $body }
    };
}

macro_rules! api_table {
    ($modname:ident, $krate:ident) => {
        pub mod $modname {
            use super::{Args, Entry, Out, Uses};
            use std::convert::TryFrom;
            use $krate::TwoFloat;
            /// operands enter every build through the same public, checked constructor (words that
            /// do not form a valid pair become NAN in all builds alike)
            fn t(w: (f64, f64)) -> TwoFloat {
                match TwoFloat::try_from(w) {
                    Ok(v) => v,
                    // the public non-finite constants stand for words the checked constructor refuses
                    Err(_) if w.0 == f64::INFINITY => TwoFloat::INFINITY,
                    Err(_) if w.0 == f64::NEG_INFINITY => TwoFloat::NEG_INFINITY,
                    Err(_) => TwoFloat::NAN,
                }
            }
            fn o(x: TwoFloat) -> Out {
                vec![(x.hi(), x.lo())]
            }
            pub fn table() -> Vec<Entry> {
                use $krate::consts as k;
                vec![
                    // constructors
                    e!("new_add", FF, false, |x: &Args| o(TwoFloat::new_add(x.f, x.g))),
                    e!("new_sub", FF, false, |x: &Args| o(TwoFloat::new_sub(x.f, x.g))),
                    e!("new_mul", FF, true, |x: &Args| o(TwoFloat::new_mul(x.f, x.g))),
                    e!("new_div", FF, true, |x: &Args| o(TwoFloat::new_div(x.f, x.g))),
                    e!("from_f64", FF, false, |x: &Args| o(TwoFloat::from_f64(x.f))),
                    e!("From<f64>", FF, false, |x: &Args| o(TwoFloat::from(x.f))),
                    e!("From<f32>", FF, false, |x: &Args| o(TwoFloat::from(x.f as f32))),
                    e!("From<i8>", I, false, |x: &Args| o(TwoFloat::from(x.i as i8))),
                    e!("From<u8>", I, false, |x: &Args| o(TwoFloat::from(x.i as u8))),
                    e!("From<i16>", I, false, |x: &Args| o(TwoFloat::from(x.i as i16))),
                    e!("From<u16>", I, false, |x: &Args| o(TwoFloat::from(x.i as u16))),
                    e!("From<i32>", I, false, |x: &Args| o(TwoFloat::from(x.i as i32))),
                    e!("From<u32>", I, false, |x: &Args| o(TwoFloat::from(x.i as u32))),
                    e!("From<i64>", I, false, |x: &Args| o(TwoFloat::from(x.i as i64))),
                    e!("From<u64>", I, false, |x: &Args| o(TwoFloat::from(x.i as u64))),
                    e!("From<i128>", I, false, |x: &Args| o(TwoFloat::from(x.i))),
                    e!("From<u128>", I, false, |x: &Args| o(TwoFloat::from(x.i as u128))),
                    e!("NumCast::from(i64)", I, false, |x: &Args| o(<TwoFloat as num_traits::NumCast>::from(x.i as i64).unwrap())),
                    e!("NumCast::from(u128)", I, false, |x: &Args| o(<TwoFloat as num_traits::NumCast>::from(x.i as u128).unwrap())),
                    e!("FromPrimitive::from_i128", I, false, |x: &Args| o(<TwoFloat as num_traits::FromPrimitive>::from_i128(x.i).unwrap())),
                    e!("try_from((f,g))", FF, false, |x: &Args| o(TwoFloat::try_from((x.f, x.g)).unwrap_or(TwoFloat::from(0.0)))),
                    e!("try_from([f,g])", FF, false, |x: &Args| o(TwoFloat::try_from([x.f, x.g]).unwrap_or(TwoFloat::from(0.0)))),
                    e!("try_from(tuple)", A, false, |x: &Args| o(TwoFloat::try_from(x.a).unwrap_or(TwoFloat::from(0.0)))),
                    e!("try_from(array)", A, false, |x: &Args| o(TwoFloat::try_from([x.a.0, x.a.1]).unwrap_or(TwoFloat::from(0.0)))),
                    // operators
                    e!("a + b", AB, false, |x: &Args| o(t(x.a) + t(x.b))),
                    e!("a - b", AB, false, |x: &Args| o(t(x.a) - t(x.b))),
                    e!("a * b", AB, true, |x: &Args| o(t(x.a) * t(x.b))),
                    e!("a / b", AB, true, |x: &Args| o(t(x.a) / t(x.b))),
                    e!("a % b", AB, true, |x: &Args| o(t(x.a) % t(x.b))),
                    e!("a + f", AF, false, |x: &Args| o(t(x.a) + x.f)),
                    e!("a - f", AF, false, |x: &Args| o(t(x.a) - x.f)),
                    e!("a * f", AF, true, |x: &Args| o(t(x.a) * x.f)),
                    e!("a / f", AF, true, |x: &Args| o(t(x.a) / x.f)),
                    e!("a % f", AF, true, |x: &Args| o(t(x.a) % x.f)),
                    e!("f + a", AF, false, |x: &Args| o(x.f + t(x.a))),
                    e!("f - a", AF, false, |x: &Args| o(x.f - t(x.a))),
                    e!("f * a", AF, true, |x: &Args| o(x.f * t(x.a))),
                    e!("f / a", AF, true, |x: &Args| o(x.f / t(x.a))),
                    e!("f % a", AF, true, |x: &Args| o(x.f % t(x.a))),
                    e!("a += b", AB, false, |x: &Args| { let mut r = t(x.a); r += t(x.b); o(r) }),
                    e!("a -= b", AB, false, |x: &Args| { let mut r = t(x.a); r -= t(x.b); o(r) }),
                    e!("a *= b", AB, true, |x: &Args| { let mut r = t(x.a); r *= t(x.b); o(r) }),
                    e!("a /= b", AB, true, |x: &Args| { let mut r = t(x.a); r /= t(x.b); o(r) }),
                    e!("a %= b", AB, true, |x: &Args| { let mut r = t(x.a); r %= t(x.b); o(r) }),
                    e!("a += f", AF, false, |x: &Args| { let mut r = t(x.a); r += x.f; o(r) }),
                    e!("a -= f", AF, false, |x: &Args| { let mut r = t(x.a); r -= x.f; o(r) }),
                    e!("a *= f", AF, true, |x: &Args| { let mut r = t(x.a); r *= x.f; o(r) }),
                    e!("a /= f", AF, true, |x: &Args| { let mut r = t(x.a); r /= x.f; o(r) }),
                    e!("a %= f", AF, true, |x: &Args| { let mut r = t(x.a); r %= x.f; o(r) }),
                    e!("-a", A, false, |x: &Args| o(-t(x.a))),
                    // utility methods
                    e!("abs", A, false, |x: &Args| o(t(x.a).abs())),
                    e!("signum", A, false, |x: &Args| o(t(x.a).signum())),
                    e!("copysign", AB, false, |x: &Args| o(t(x.a).copysign(&t(x.b)))),
                    e!("min", AB, false, |x: &Args| o(t(x.a).min(t(x.b)))),
                    e!("max", AB, false, |x: &Args| o(t(x.a).max(t(x.b)))),
                    e!("floor", A, false, |x: &Args| o(t(x.a).floor())),
                    e!("ceil", A, false, |x: &Args| o(t(x.a).ceil())),
                    e!("trunc", A, false, |x: &Args| o(t(x.a).trunc())),
                    e!("round", A, false, |x: &Args| o(t(x.a).round())),
                    e!("fract", A, false, |x: &Args| o(t(x.a).fract())),
                    e!("recip", A, true, |x: &Args| o(t(x.a).recip())),
                    e!("powi", AN, true, |x: &Args| o(t(x.a).powi(x.n))),
                    e!("to_degrees", A, true, |x: &Args| o(t(x.a).to_degrees())),
                    e!("to_radians", A, true, |x: &Args| o(t(x.a).to_radians())),
                    e!("div_euclid", AB, true, |x: &Args| o(t(x.a).div_euclid(t(x.b)))),
                    e!("rem_euclid", AB, true, |x: &Args| o(t(x.a).rem_euclid(t(x.b)))),
                    e!("mul_add", ABC, true, |x: &Args| o(num_traits::Float::mul_add(t(x.a), t(x.b), t(x.c)))),
                    e!("sum[a,b,c]", ABC, false, |x: &Args| o([t(x.a), t(x.b), t(x.c)].iter().sum::<TwoFloat>())),
                    e!("sum(long)", ABC, true, |x: &Args| {
                        // a long iterator (up to ~6000 terms) derived from a, b, c and the integer argument
                        let len = 2 + (x.i.unsigned_abs() % 6000) as usize;
                        let base = [t(x.a), t(x.b), t(x.c)];
                        o((0..len).map(|k| base[k % 3] * (1.0 + (k as f64) / 1048576.0)).sum::<TwoFloat>())
                    }),
                    e!("sum[f,g]", FF, false, |x: &Args| o([x.f, x.g].iter().sum::<TwoFloat>())),
                    // cancelling sequences: a big term, a smaller one, the big one's negation, a still smaller term
                    e!("sum[f,g,-f,g*3u] (f64 by value)", FF, false, |x: &Args| o(vec![x.f, x.g, -x.f, x.g * 3.3306690738754696e-16].into_iter().sum::<TwoFloat>())),
                    e!("sum[f,g,-f,g*3u,-g] (&f64)", FF, false, |x: &Args| o([x.f, x.g, -x.f, x.g * 3.3306690738754696e-16, -x.g].iter().sum::<TwoFloat>())),
                    e!("sum[a,b,-a,c] (TwoFloat by value)", ABC, false, |x: &Args| o(vec![t(x.a), t(x.b), -t(x.a), t(x.c)].into_iter().sum::<TwoFloat>())),
                    e!("Inv::inv", A, true, |x: &Args| o(num_traits::Inv::inv(t(x.a)))),
                    e!("Pow<i16>", AN, true, |x: &Args| o(num_traits::Pow::pow(t(x.a), x.n as i16))),
                    e!("Pow<TwoFloat>", AB, true, |x: &Args| o(num_traits::Pow::pow(t(x.a), t(x.b)))),
                    // mathematical functions
                    e!("sqrt", A, true, |x: &Args| o(t(x.a).sqrt())),
                    e!("cbrt", A, true, |x: &Args| o(t(x.a).cbrt())),
                    e!("hypot", AB, true, |x: &Args| o(t(x.a).hypot(t(x.b)))),
                    e!("powf", AB, true, |x: &Args| o(t(x.a).powf(t(x.b)))),
                    e!("exp", A, true, |x: &Args| o(t(x.a).exp())),
                    e!("exp2", A, true, |x: &Args| o(t(x.a).exp2())),
                    e!("exp_m1", A, true, |x: &Args| o(t(x.a).exp_m1())),
                    e!("ln", A, true, |x: &Args| o(t(x.a).ln())),
                    e!("log2", A, true, |x: &Args| o(t(x.a).log2())),
                    e!("log10", A, true, |x: &Args| o(t(x.a).log10())),
                    e!("log", AB, true, |x: &Args| o(t(x.a).log(t(x.b)))),
                    e!("ln_1p", A, true, |x: &Args| o(t(x.a).ln_1p())),
                    e!("sin", A, true, |x: &Args| o(t(x.a).sin())),
                    e!("cos", A, true, |x: &Args| o(t(x.a).cos())),
                    e!("tan", A, true, |x: &Args| o(t(x.a).tan())),
                    e!("sin_cos", A, true, |x: &Args| { let (s, c) = t(x.a).sin_cos(); vec![(s.hi(), s.lo()), (c.hi(), c.lo())] }),
                    e!("asin", A, true, |x: &Args| o(t(x.a).asin())),
                    e!("acos", A, true, |x: &Args| o(t(x.a).acos())),
                    e!("atan", A, true, |x: &Args| o(t(x.a).atan())),
                    e!("atan2", AB, true, |x: &Args| o(t(x.a).atan2(t(x.b)))),
                    e!("sinh", A, true, |x: &Args| o(t(x.a).sinh())),
                    e!("cosh", A, true, |x: &Args| o(t(x.a).cosh())),
                    e!("tanh", A, true, |x: &Args| o(t(x.a).tanh())),
                    e!("asinh", A, true, |x: &Args| o(t(x.a).asinh())),
                    e!("acosh", A, true, |x: &Args| o(t(x.a).acosh())),
                    e!("atanh", A, true, |x: &Args| o(t(x.a).atanh())),
                    // every num_traits route (the configurations must agree on these spellings too)
                    e!("Float::abs", A, true, |x: &Args| o(num_traits::Float::abs(t(x.a)))),
                    e!("Float::signum", A, true, |x: &Args| o(num_traits::Float::signum(t(x.a)))),
                    e!("Float::sqrt", A, true, |x: &Args| o(num_traits::Float::sqrt(t(x.a)))),
                    e!("Float::cbrt", A, true, |x: &Args| o(num_traits::Float::cbrt(t(x.a)))),
                    e!("Float::exp", A, true, |x: &Args| o(num_traits::Float::exp(t(x.a)))),
                    e!("Float::exp2", A, true, |x: &Args| o(num_traits::Float::exp2(t(x.a)))),
                    e!("Float::exp_m1", A, true, |x: &Args| o(num_traits::Float::exp_m1(t(x.a)))),
                    e!("Float::ln", A, true, |x: &Args| o(num_traits::Float::ln(t(x.a)))),
                    e!("Float::log2", A, true, |x: &Args| o(num_traits::Float::log2(t(x.a)))),
                    e!("Float::log10", A, true, |x: &Args| o(num_traits::Float::log10(t(x.a)))),
                    e!("Float::ln_1p", A, true, |x: &Args| o(num_traits::Float::ln_1p(t(x.a)))),
                    e!("Float::sin", A, true, |x: &Args| o(num_traits::Float::sin(t(x.a)))),
                    e!("Float::cos", A, true, |x: &Args| o(num_traits::Float::cos(t(x.a)))),
                    e!("Float::tan", A, true, |x: &Args| o(num_traits::Float::tan(t(x.a)))),
                    e!("Float::asin", A, true, |x: &Args| o(num_traits::Float::asin(t(x.a)))),
                    e!("Float::acos", A, true, |x: &Args| o(num_traits::Float::acos(t(x.a)))),
                    e!("Float::atan", A, true, |x: &Args| o(num_traits::Float::atan(t(x.a)))),
                    e!("Float::sinh", A, true, |x: &Args| o(num_traits::Float::sinh(t(x.a)))),
                    e!("Float::cosh", A, true, |x: &Args| o(num_traits::Float::cosh(t(x.a)))),
                    e!("Float::tanh", A, true, |x: &Args| o(num_traits::Float::tanh(t(x.a)))),
                    e!("Float::asinh", A, true, |x: &Args| o(num_traits::Float::asinh(t(x.a)))),
                    e!("Float::acosh", A, true, |x: &Args| o(num_traits::Float::acosh(t(x.a)))),
                    e!("Float::atanh", A, true, |x: &Args| o(num_traits::Float::atanh(t(x.a)))),
                    e!("Float::floor", A, true, |x: &Args| o(num_traits::Float::floor(t(x.a)))),
                    e!("Float::ceil", A, true, |x: &Args| o(num_traits::Float::ceil(t(x.a)))),
                    e!("Float::round", A, true, |x: &Args| o(num_traits::Float::round(t(x.a)))),
                    e!("Float::trunc", A, true, |x: &Args| o(num_traits::Float::trunc(t(x.a)))),
                    e!("Float::fract", A, true, |x: &Args| o(num_traits::Float::fract(t(x.a)))),
                    e!("Float::recip", A, true, |x: &Args| o(num_traits::Float::recip(t(x.a)))),
                    e!("Float::to_degrees", A, true, |x: &Args| o(num_traits::Float::to_degrees(t(x.a)))),
                    e!("Float::to_radians", A, true, |x: &Args| o(num_traits::Float::to_radians(t(x.a)))),
                    e!("FloatCore::abs", A, true, |x: &Args| o(num_traits::float::FloatCore::abs(t(x.a)))),
                    e!("FloatCore::signum", A, true, |x: &Args| o(num_traits::float::FloatCore::signum(t(x.a)))),
                    e!("FloatCore::floor", A, true, |x: &Args| o(num_traits::float::FloatCore::floor(t(x.a)))),
                    e!("FloatCore::ceil", A, true, |x: &Args| o(num_traits::float::FloatCore::ceil(t(x.a)))),
                    e!("FloatCore::round", A, true, |x: &Args| o(num_traits::float::FloatCore::round(t(x.a)))),
                    e!("FloatCore::trunc", A, true, |x: &Args| o(num_traits::float::FloatCore::trunc(t(x.a)))),
                    e!("FloatCore::fract", A, true, |x: &Args| o(num_traits::float::FloatCore::fract(t(x.a)))),
                    e!("FloatCore::recip", A, true, |x: &Args| o(num_traits::float::FloatCore::recip(t(x.a)))),
                    e!("FloatCore::to_degrees", A, true, |x: &Args| o(num_traits::float::FloatCore::to_degrees(t(x.a)))),
                    e!("FloatCore::to_radians", A, true, |x: &Args| o(num_traits::float::FloatCore::to_radians(t(x.a)))),
                    e!("Signed::abs", A, false, |x: &Args| o(num_traits::Signed::abs(&t(x.a)))),
                    e!("Signed::signum", A, false, |x: &Args| o(num_traits::Signed::signum(&t(x.a)))),
                    e!("Float::sin_cos", A, true, |x: &Args| { let (s, c) = num_traits::Float::sin_cos(t(x.a)); vec![(s.hi(), s.lo()), (c.hi(), c.lo())] }),
                    e!("Float::powf", AB, true, |x: &Args| o(num_traits::Float::powf(t(x.a), t(x.b)))),
                    e!("Float::hypot", AB, true, |x: &Args| o(num_traits::Float::hypot(t(x.a), t(x.b)))),
                    e!("Float::atan2", AB, true, |x: &Args| o(num_traits::Float::atan2(t(x.a), t(x.b)))),
                    e!("Float::log", AB, true, |x: &Args| o(num_traits::Float::log(t(x.a), t(x.b)))),
                    e!("Float::max", AB, true, |x: &Args| o(num_traits::Float::max(t(x.a), t(x.b)))),
                    e!("Float::min", AB, true, |x: &Args| o(num_traits::Float::min(t(x.a), t(x.b)))),
                    e!("Float::abs_sub", AB, true, |x: &Args| o(num_traits::Float::abs_sub(t(x.a), t(x.b)))),
                    e!("FloatCore::max", AB, false, |x: &Args| o(num_traits::float::FloatCore::max(t(x.a), t(x.b)))),
                    e!("FloatCore::min", AB, false, |x: &Args| o(num_traits::float::FloatCore::min(t(x.a), t(x.b)))),
                    e!("Signed::abs_sub", AB, true, |x: &Args| o(num_traits::Signed::abs_sub(&t(x.a), &t(x.b)))),
                    e!("Float::powi", AN, true, |x: &Args| o(num_traits::Float::powi(t(x.a), x.n))),
                    e!("FloatCore::powi", AN, true, |x: &Args| o(num_traits::float::FloatCore::powi(t(x.a), x.n))),
                    // constants (index n selects)
                    e!("constants", None, false, |x: &Args| {
                        let c = [
                            k::E, k::FRAC_1_PI, k::FRAC_2_PI, k::FRAC_2_SQRT_PI, k::FRAC_1_SQRT_2, k::FRAC_PI_2, k::FRAC_PI_3, k::FRAC_PI_4, k::FRAC_PI_6, k::FRAC_PI_8, k::LN_10, k::LN_2, k::LOG10_E, k::LOG2_E, k::PI, k::SQRT_2, k::TAU, k::LOG10_2, k::LOG2_10,
                            TwoFloat::MAX, TwoFloat::MIN, TwoFloat::MIN_POSITIVE, TwoFloat::EPSILON, TwoFloat::NAN, TwoFloat::INFINITY, TwoFloat::NEG_INFINITY,
                            <TwoFloat as num_traits::Zero>::zero(), <TwoFloat as num_traits::One>::one(), <TwoFloat as num_traits::float::FloatCore>::neg_zero(),
                        ];
                        o(c[(x.n.unsigned_abs() as usize) % c.len()])
                    }),
                ]
            }
        }
    };
}

// isolated runner processes (harness_iso/): exactly one configuration, see runner.rs
#[cfg(feature = "isolated_runner")]
api_table!(iso_build, tf_iso);

// the crate exactly as users build it (default features, no verif_hooks)
#[cfg(not(feature = "isolated_runner"))]
api_table!(std_build, twofloat);
// the same source with default features + verif_hooks (hooks-neutrality differential)
#[cfg(not(feature = "isolated_runner"))]
api_table!(hooked_build, tf_hooked);
// the same source with default-features = false, features = [math_funcs, verif_hooks]
#[cfg(not(feature = "isolated_runner"))]
api_table!(nostd_build, tf_nostd);

/// the cfg-selected internal fma of the two instrumented builds
#[cfg(not(feature = "isolated_runner"))]
pub mod fma_hooks {
    pub const STD_BACKEND: &str = tf_hooked::verif_hooks::FMA_BACKEND;
    pub const NOSTD_BACKEND: &str = tf_nostd::verif_hooks::FMA_BACKEND;
    pub fn std_fma(x: f64, y: f64, z: f64) -> f64 {
        tf_hooked::verif_hooks::fma(x, y, z)
    }
    pub fn nostd_fma(x: f64, y: f64, z: f64) -> f64 {
        tf_nostd::verif_hooks::fma(x, y, z)
    }
}
