//! C16 (sin, cos, sin_cos, tan), C17 (asin, acos, atan, atan2), C18 (hyperbolic)

use crate::check;
use crate::common::*;
use crate::engine::{guard, Ctx, Kind, Property, SubCheck};
use crate::fcommon::*;
use crate::gen::*;
use crate::inh;
use crate::p_base::nonfinite_pool;
use oracle::big::pow2_f64;
use oracle::Big;
use twofloat::TwoFloat;

fn call(ctx: &mut Ctx, what: &str, x: Dd, f: fn(TwoFloat) -> TwoFloat) -> Option<Dd> {
    decoy_call(ctx, x, f);
    match guard(|| f(x.tf())) {
        Ok(t) => Some(Dd::of(t)),
        Err(m) => {
            ctx.fail(format!("{what}({}) panicked: {m}", x.show()));
            None
        }
    }
}

// ------------------------------------------------------------------ C16

/// |x| <= 2^20: uniform, log-uniform towards 0, k*pi/4 + delta
fn trig_arg(ctx: &mut Ctx) -> Dd {
    if let Some(c) = maybe_constant(ctx, 25, false) {
        return c;
    }
    if ctx.chance(1, 24) {
        return end_point_sym(ctx, 1048576.0);
    }
    let c = ctx.weighted(&[4, 4, 6, 2, 1]);
    let x = match c {
        0 => {
            ctx.label("arg:uniform");
            let u = ctx.bits(53) as f64 / 9007199254740992.0;
            let m = [1048576.0, 1000.0, 8.0][ctx.below(3) as usize];
            let x = u * m;
            let x = if x == 0.0 { 1.0 } else { x };
            { let sg = ctx.flag(); dd_at(ctx, if sg { -x } else { x }) }
        }
        1 => {
            ctx.label("arg:log-uniform");
            if ctx.flag() {
                dd_exp(ctx, -300, 19, false)
            } else {
                // every valid x with |x| <= 2^20 is in the domain, down to the smallest normal numbers
                dd_exp(ctx, -1022, 19, false)
            }
        }
        2 => {
            // k pi/4 + delta, both sides of every reduction switch
            ctx.label("arg:k*pi/4");
            let kmax: i64 = [8, 64, 1 << 12, 1 << 22][ctx.below(4) as usize];
            let k = ctx.range(-kmax, kmax);
            let k = if k == 0 { 1 } else { k };
            let p = k as f64 * std::f64::consts::FRAC_PI_4;
            let d = match ctx.below(4) {
                0 => 0,
                1 => ctx.range(-4, 4),
                2 => ctx.range(-1000, 1000),
                _ => ctx.range(-(1 << 30), 1 << 30),
            };
            let hi = f64::from_bits((p.to_bits() as i64 + d) as u64);
            let hi = if hi.is_finite() && hi != 0.0 && hi.abs() <= 1048576.0 { hi } else { p };
            if ctx.chance(1, 3) {
                // the double-double closest to k pi/4: low word = the rest of pi
                let h = oracle::Hp::new(256);
                let v = h.pi().mul(&Big::from_i64(k)).mul_pow2(-2);
                crate::p_conv::dd_from_big(&v)
            } else {
                dd_at(ctx, hi)
            }
        }
        3 => {
            ctx.label("arg:quadrant");
            // four quadrants equally weighted
            let q = ctx.below(4) as f64;
            let u = ctx.bits(53) as f64 / 9007199254740992.0;
            let x = (q + u) * std::f64::consts::FRAC_PI_2 - std::f64::consts::FRAC_PI_4;
            dd_at(ctx, if x == 0.0 { 0.1 } else { x })
        }
        _ => {
            ctx.label("zero");
            Dd::new(if ctx.flag() { -0.0 } else { 0.0 }, 0.0)
        }
    };
    if x.big().abs() > p2(20) {
        Dd::new(1048576.0 * x.hi.signum(), 0.0)
    } else {
        x
    }
}

fn c16_sincos(ctx: &mut Ctx) {
    let x = trig_arg(ctx);
    let x = forced_or(ctx, x);
    x.key(ctx);
    note_dd(ctx, "x", x);
    let Some(s) = call(ctx, "sin", x, inh::sin) else { return };
    let Some(c) = call(ctx, "cos", x, inh::cos) else { return };
    let sc = match guard(|| inh::sin_cos(x.tf())) {
        Ok((a, b)) => (Dd::of(a), Dd::of(b)),
        Err(m) => {
            ctx.fail(format!("sin_cos panicked: {m}"));
            return;
        }
    };
    note_dd(ctx, "sin", s);
    note_dd(ctx, "cos", c);
    crate::p_forms::routes_agree(ctx, "sin", x, s);
    crate::p_forms::routes_agree(ctx, "cos", x, c);
    crate::p_forms::routes_agree(ctx, "sin_cos.0", x, s);
    crate::p_forms::routes_agree(ctx, "sin_cos.1", x, c);
    check!(ctx, same_dd(sc.0, s) && same_dd(sc.1, c), "sin_cos({}) = ({}, {}) differs from (sin, cos) = ({}, {})", x.show(), sc.0.show(), sc.1.show(), s.show(), c.show());
    let v = x.big();
    if v.is_zero() {
        check!(ctx, both_zero(s) && c.hi == 1.0 && c.lo == 0.0, "sin(0), cos(0) = {}, {}", s.show(), c.show());
        ctx.set_nontrivial(true);
        return;
    }
    let (ws, wc) = {
        let mut out = (Big::zero(), Big::zero());
        let r = reference(ctx, |h| {
            let (a, _) = h.sin_cos(&v);
            a
        });
        out.0 = r;
        out.1 = reference(ctx, |h| h.cos(&v));
        out
    };
    bounded(ctx, "sin", s, &ws, &Big::zero(), &p2(-66));
    bounded(ctx, "cos", c, &wc, &Big::zero(), &p2(-66));
    // sin within relative 2^-64 for |x| <= pi/4
    if v.abs() <= Big::from_f64(0.785398163397448) {
        ctx.label("sin:relative-band");
        bounded(ctx, "sin (relative, |x| <= pi/4)", s, &ws, &p2(-64), &Big::zero());
    }
    ctx.set_nontrivial(x.lo != 0.0);
}

fn c16_tan(ctx: &mut Ctx) {
    let x = trig_arg(ctx);
    let x = forced_or(ctx, x);
    x.key(ctx);
    note_dd(ctx, "x", x);
    let Some(t) = call(ctx, "tan", x, inh::tan) else { return };
    note_dd(ctx, "tan", t);
    crate::p_forms::routes_agree(ctx, "tan", x, t);
    let v = x.big();
    if v.is_zero() {
        check!(ctx, both_zero(t), "tan(0) = {}", t.show());
        ctx.set_nontrivial(true);
        return;
    }
    let want = reference(ctx, |h| h.tan(&v));
    // 2^-50 max(|tan v|, 2^-30) + 2^-80 (1 + tan^2 v)
    let a = want.abs().max(p2(-30)).mul_pow2(-50);
    let b = Big::one().add(&want.round_to(80).sqr()).mul_pow2(-80);
    bounded(ctx, "tan", t, &want, &Big::zero(), &a.add(&b));
    ctx.set_nontrivial(x.lo != 0.0);
}

fn c16_invalid(ctx: &mut Ctx) {
    let pool = nonfinite_pool();
    let i = ctx.word() as usize;
    let (name, x) = pool[i];
    ctx.key_u64(i as u64);
    ctx.note("x", || format!("{name} = {}", x.show()));
    for (n, f) in [("sin", inh::sin as fn(TwoFloat) -> TwoFloat), ("cos", inh::cos), ("tan", inh::tan)] {
        let Some(r) = call(ctx, n, x, f) else { return };
        check!(ctx, !r.valid(), "{n} of the invalid argument {name} = {} returned the valid {}", x.show(), r.show());
    }
    if let Ok((a, b)) = guard(|| inh::sin_cos(x.tf())) {
        check!(ctx, !a.is_valid() && !b.is_valid(), "sin_cos of the invalid argument {name} returned a valid component");
    }
    ctx.set_nontrivial(true);
}

fn c16_sincos_grid(ctx: &mut Ctx) {
    force_grid(ctx, 128.0, false);
    c16_sincos(ctx);
    ctx.set_nontrivial(true);
}

fn c16_tan_grid(ctx: &mut Ctx) {
    force_grid(ctx, 128.0, false);
    c16_tan(ctx);
    ctx.set_nontrivial(true);
}

pub fn c16() -> Property {
    let g = |name, eval, quick, thorough| SubCheck { name, kind: Kind::Generated { words: 40, max_items: 0 }, eval, quick, thorough };
    Property {
        id: "C16",
        rule: "valid x with |x| <= 2^20: uniform in [-2^20,2^20]/[-1000,1000]/[-8,8], log-uniform down to 2^-300, k*pi/4 + delta for |k| up to 2^22 with delta from 0 to 2^30 ulps (and the double-double nearest to k*pi/4), the four quadrants equally weighted, zero; every value of the non-finite pool for the invalid-in/invalid-out rule (complete). Reference: 384-bit Hp with pi to 544 bits. non-trivial = non-zero low word or special point; distinct = distinct argument bits Exact-grid sub-checks (complete enumerations): the generated sub-check evaluated at every argument of the form +-k/128 (or k/16, k/64, k/1024, integers, 10^k; see DESIGN 11.5) with a zero low word.",
        assumptions: vec!["reference functions: oracle::Hp at 384 bits, validated against mpmath vectors to 2^-300".into()],
        subchecks: vec![
            g("sin_cos", c16_sincos, 250_000, 8_000_000),
            g("tan", c16_tan, 250_000, 8_000_000),
            SubCheck { name: "invalid_arguments", kind: Kind::Enumerated { n: 25 }, eval: c16_invalid, quick: 0, thorough: 0 },
            SubCheck { name: "sin_cos_grid", kind: Kind::Enumerated { n: 2 * 128 * 128 }, eval: c16_sincos_grid, quick: 0, thorough: 0 },
            SubCheck { name: "tan_grid", kind: Kind::Enumerated { n: 2 * 128 * 128 }, eval: c16_tan_grid, quick: 0, thorough: 0 },
        ],
    }
}

// ------------------------------------------------------------------ C17

/// x in [-1, 1] with the approaches to +-1, +-1/2 and 0
fn unit_arg(ctx: &mut Ctx) -> Dd {
    if let Some(c) = maybe_constant(ctx, 25, false) {
        return c;
    }
    if ctx.chance(1, 24) {
        return end_point_sym(ctx, 1.0);
    }
    let c = ctx.weighted(&[4, 4, 3, 3, 2, 1]);
    let x = match c {
        0 => {
            ctx.label("arg:uniform");
            let u = ctx.bits(53) as f64 / 9007199254740992.0;
            let u = if u == 0.0 { 0.5 } else { u };
            { let sg = ctx.flag(); dd_at(ctx, if sg { -u } else { u }) }
        }
        1 => {
            // +-(1 - 2^-j), finally hi = +-1 with the distance in lo alone
            ctx.label("arg:approach +-1");
            let s = if ctx.flag() { -1.0 } else { 1.0 };
            if ctx.chance(1, 3) {
                let d = dd_at(ctx, s);
                // the low word must point inwards
                let lo = -s * d.lo.abs();
                let d2 = Dd::new(s, lo);
                if d2.valid() {
                    d2
                } else {
                    Dd::new(s, 0.0)
                }
            } else {
                let j = ctx.range(1, 53);
                let hi = s * (1.0 - pow2_f64(-j));
                let hi = step(hi, ctx.range(-1, 1));
                let hi = if hi.abs() >= 1.0 { s * (1.0 - pow2_f64(-53)) } else { hi };
                dd_at(ctx, hi)
            }
        }
        2 => {
            ctx.label("arg:around 1/2");
            let s = if ctx.flag() { -1.0 } else { 1.0 };
            let hi = pivot_near(ctx, 0.5 * s);
            dd_at(ctx, hi)
        }
        3 => {
            ctx.label("arg:log-uniform");
            dd_exp(ctx, -300, -1, false)
        }
        4 => {
            ctx.label("arg:exact-point");
            Dd::new([1.0, -1.0, 0.5, -0.5, 0.0, -0.0][ctx.below(6) as usize], 0.0)
        }
        _ => {
            ctx.label("arg:outside");
            let s = if ctx.flag() { -1.0 } else { 1.0 };
            if ctx.flag() {
                let d = dd_at(ctx, s);
                let d2 = Dd::new(s, s * d.lo.abs());
                if d2.valid() && d2.lo != 0.0 {
                    d2
                } else {
                    Dd::new(s * 1.5, 0.0)
                }
            } else {
                let d = if ctx.flag() { dd_exp(ctx, 0, 40, false) } else { dd_exp(ctx, 0, 1023, false) };
                if d.big().abs() > Big::one() {
                    d
                } else {
                    Dd::new(2.0 * s, 0.0)
                }
            }
        }
    };
    x
}

fn c17_asin_acos(ctx: &mut Ctx) {
    let x = unit_arg(ctx);
    let x = forced_or(ctx, x);
    x.key(ctx);
    note_dd(ctx, "x", x);
    let Some(a) = call(ctx, "asin", x, inh::asin) else { return };
    let Some(c) = call(ctx, "acos", x, inh::acos) else { return };
    note_dd(ctx, "asin", a);
    note_dd(ctx, "acos", c);
    crate::p_forms::routes_agree(ctx, "asin", x, a);
    crate::p_forms::routes_agree(ctx, "acos", x, c);
    let v = x.big();
    let one = Big::one();
    if v.abs() > one {
        ctx.label("domain-error");
        check!(ctx, !a.valid() && !c.valid(), "asin/acos of {} (|x| > 1) returned {} / {}", x.show(), a.show(), c.show());
        ctx.set_nontrivial(true);
        return;
    }
    if v.is_zero() {
        check!(ctx, both_zero(a), "asin(0) = {}", a.show());
    }
    if v == one {
        check!(ctx, both_zero(c), "acos(1) = {}", c.show());
    }
    let wa = reference(ctx, |h| h.asin(&v));
    let wc = reference(ctx, |h| h.acos(&v));
    if v.abs() == one {
        // asin(+-1) = +-pi/2 and acos(-1) = pi to 2^-100
        bounded(ctx, "asin(+-1)", a, &wa, &p2(-100), &Big::zero());
        if v.sign() < 0 {
            bounded(ctx, "acos(-1)", c, &wc, &p2(-100), &Big::zero());
        }
        ctx.set_nontrivial(true);
        return;
    }
    bounded(ctx, "asin (absolute)", a, &wa, &Big::zero(), &p2(-45));
    if !v.is_zero() {
        bounded(ctx, "asin (relative)", a, &wa, &p2(-43), &Big::zero());
    }
    bounded(ctx, "acos", c, &wc, &Big::zero(), &p2(-45));
    ctx.set_nontrivial(x.lo != 0.0);
}

fn c17_atan(ctx: &mut Ctx) {
    let c = ctx.weighted(&[5, 4, 2, 1]);
    let x = match c {
        0 => {
            ctx.label("arg:breakpoint");
            let p = [0.4375, 0.6875, 1.1875, 2.4375, 1.0, 0.5, 1.5][ctx.below(7) as usize];
            let p = if ctx.flag() { -p } else { p };
            let hi = pivot_near(ctx, p);
            dd_at(ctx, hi)
        }
        1 => {
            ctx.label("arg:log-uniform");
            dd_closed(ctx, -60, 60, false)
        }
        2 => match maybe_constant(ctx, 4, false) {
            Some(k) => k,
            None => dd_closed(ctx, -1022, 60, false),
        },
        _ => {
            ctx.label("zero");
            Dd::new(if ctx.flag() { -0.0 } else { 0.0 }, 0.0)
        }
    };
    let x = if ctx.chance(1, 24) { end_point_sym(ctx, 1152921504606846976.0) } else { x };
    let x = forced_or(ctx, x);
    x.key(ctx);
    note_dd(ctx, "x", x);
    let Some(r) = call(ctx, "atan", x, inh::atan) else { return };
    note_dd(ctx, "atan", r);
    crate::p_forms::routes_agree(ctx, "atan", x, r);
    let v = x.big();
    if v.is_zero() {
        check!(ctx, both_zero(r), "atan(0) = {}", r.show());
        ctx.set_nontrivial(true);
        return;
    }
    if v.abs() > p2(60) {
        ctx.out_of_domain();
        return;
    }
    let want = reference(ctx, |h| h.atan(&v));
    bounded(ctx, "atan", r, &want, &p2(-70), &Big::zero());
    ctx.set_nontrivial(x.lo != 0.0);
}

fn c17_atan2(ctx: &mut Ctx) {
    let y = dd_closed(ctx, -30, 30, false);
    let c = ctx.weighted(&[4, 4, 2, 1]);
    let x = match c {
        3 => {
            // the corners and edges of the operand box: |hi| exactly 2^30 or 2^-30
            ctx.label("box-corner");
            let hi = pow2_f64(if ctx.flag() { 30 } else { -30 }) * if ctx.flag() { -1.0 } else { 1.0 };
            dd_at(ctx, hi)
        }
        0 => dd_closed(ctx, -30, 30, false),
        1 => {
            // ratio y/x across the atan breakpoints
            ctx.label("ratio:breakpoint");
            let p = [0.4375, 0.6875, 1.1875, 2.4375, 1.0][ctx.below(5) as usize];
            let r = pivot_near(ctx, p);
            let hi = y.hi / r * if ctx.flag() { -1.0 } else { 1.0 };
            if hi.is_finite() && hi != 0.0 && exponent(hi) >= -30 && exponent(hi) < 30 {
                dd_at(ctx, hi)
            } else {
                dd_exp(ctx, -30, 29, false)
            }
        }
        _ => related(ctx, y, -30, 29),
    };
    // half of the corner cases put y on the opposite extreme
    let y = if c == 3 && ctx.flag() {
        let hi = pow2_f64(if x.hi.abs() > 1.0 { -30 } else { 30 }) * if ctx.flag() { -1.0 } else { 1.0 };
        dd_at(ctx, hi)
    } else {
        y
    };
    y.key(ctx);
    x.key(ctx);
    note_dd(ctx, "y", y);
    note_dd(ctx, "x", x);
    let r = match guard(|| inh::atan2(y.tf(), x.tf())) {
        Ok(t) => Dd::of(t),
        Err(m) => {
            ctx.fail(format!("atan2 panicked: {m}"));
            return;
        }
    };
    note_dd(ctx, "atan2", r);
    {
        let via = guard(|| <TwoFloat as num_traits::Float>::atan2(y.tf(), x.tf())).map(Dd::of);
        check!(ctx, via.as_ref().ok().map(|d| same_dd(*d, r)) == Some(true), "Float::atan2({}, {}) = {:?} differs from the inherent atan2 = {}", y.show(), x.show(), via.map(|d| d.show()), r.show());
    }
    let (vy, vx) = (y.big(), x.big());
    let want = reference(ctx, |h| h.atan2(&vy, &vx));
    bounded(ctx, "atan2", r, &want, &p2(-69), &Big::zero());
    if r.valid() {
        check!(ctx, r.big().sign() == want.sign(), "atan2({}, {}) = {} is in the wrong half-plane", y.show(), x.show(), r.show());
    }
    ctx.set_nontrivial(x.lo != 0.0 && y.lo != 0.0);
}

/// all axis combinations: (y, x) with zeros of either sign / non-zero values of either sign
fn c17_atan2_axes(ctx: &mut Ctx) {
    let i = ctx.word();
    ctx.key_u64(i);
    let vals = [0.0, -0.0, 1.5, -1.5, 3.0e10, -2.5e-10];
    let (yi, xi, li) = ((i % 6) as usize, ((i / 6) % 6) as usize, (i / 36) % 2);
    let mk = |v: f64| -> Dd {
        if v != 0.0 && li == 1 {
            Dd::new(v, v * pow2_f64(-60))
        } else {
            Dd::new(v, 0.0)
        }
    };
    let (y, x) = (mk(vals[yi]), mk(vals[xi]));
    if y.hi != 0.0 && x.hi != 0.0 {
        ctx.out_of_domain();
        return;
    }
    note_dd(ctx, "y", y);
    note_dd(ctx, "x", x);
    let r = match guard(|| inh::atan2(y.tf(), x.tf())) {
        Ok(t) => Dd::of(t),
        Err(m) => {
            ctx.fail(format!("atan2 panicked: {m}"));
            return;
        }
    };
    let pi = Dd::of(twofloat::consts::PI);
    let pi2 = Dd::of(twofloat::consts::FRAC_PI_2);
    let want: Dd = if y.hi == 0.0 {
        if x.hi.is_sign_positive() {
            Dd::new(0.0, 0.0)
        } else if y.hi.is_sign_positive() {
            pi
        } else {
            pi.neg()
        }
    } else if y.hi > 0.0 {
        pi2
    } else {
        pi2.neg()
    };
    let ok = if want.hi == 0.0 { r.hi == 0.0 && r.lo == 0.0 } else { same_dd(r, want) };
    check!(ctx, ok, "atan2({}, {}) = {} but the axis value is {}", y.show(), x.show(), r.show(), want.show());
    let via = guard(|| <TwoFloat as num_traits::Float>::atan2(y.tf(), x.tf())).map(Dd::of);
    check!(ctx, via.as_ref().ok().map(|d| same_dd(*d, r)) == Some(true), "Float::atan2({}, {}) = {:?} differs from the inherent atan2 = {} on the axes", y.show(), x.show(), via.map(|d| d.show()), r.show());
    ctx.set_nontrivial(true);
}

fn c17_asin_acos_grid(ctx: &mut Ctx) {
    force_grid(ctx, 1024.0, false);
    c17_asin_acos(ctx);
    ctx.set_nontrivial(true);
}

fn c17_atan_grid(ctx: &mut Ctx) {
    force_grid(ctx, 128.0, false);
    c17_atan(ctx);
    ctx.set_nontrivial(true);
}

pub fn c17() -> Property {
    let g = |name, eval, quick, thorough| SubCheck { name, kind: Kind::Generated { words: 40, max_items: 0 }, eval, quick, thorough };
    Property {
        id: "C17",
        rule: "asin/acos: x in [-1,1] uniform, ±(1-2^-j) then hi = ±1 with the distance in lo alone, around ±1/2, log-uniform to 2^-300, exact points ±1, ±1/2, ±0, and just outside (1 + tiny lo, larger); atan: every breakpoint 7/16, 11/16, 19/16, 39/16 (and 1/2, 1, 3/2) ± ulps/2^-j/10^6 ulps both signs, log-uniform 2^-300..2^60, zero; atan2: magnitudes 2^-30..2^30 all sign combinations, ratios across the breakpoints, related operands; all 72 axis combinations (complete). non-trivial = non-zero low word(s) or special point; distinct = distinct argument bits Exact-grid sub-checks (complete enumerations): the generated sub-check evaluated at every argument of the form +-k/128 (or k/16, k/64, k/1024, integers, 10^k; see DESIGN 11.5) with a zero low word.",
        assumptions: vec!["reference functions: oracle::Hp at 384 bits, validated against mpmath vectors to 2^-300".into()],
        subchecks: vec![
            g("asin_acos", c17_asin_acos, 250_000, 8_000_000),
            g("atan", c17_atan, 250_000, 8_000_000),
            g("atan2", c17_atan2, 200_000, 6_000_000),
            SubCheck { name: "atan2_axes", kind: Kind::Enumerated { n: 72 }, eval: c17_atan2_axes, quick: 0, thorough: 0 },
            SubCheck { name: "asin_acos_grid", kind: Kind::Enumerated { n: 2 * 1024 }, eval: c17_asin_acos_grid, quick: 0, thorough: 0 },
            SubCheck { name: "atan_grid", kind: Kind::Enumerated { n: 2 * 128 * 64 }, eval: c17_atan_grid, quick: 0, thorough: 0 },
        ],
    }
}

// ------------------------------------------------------------------ C18

fn c18_forward(ctx: &mut Ctx) {
    // sinh, cosh, tanh on |x| <= 600
    let c = ctx.weighted(&[5, 4, 2, 1]);
    let x = match c {
        0 => {
            ctx.label("arg:log-uniform");
            dd_exp(ctx, -60, 9, false)
        }
        1 => {
            ctx.label("arg:uniform");
            let u = ctx.bits(53) as f64 / 9007199254740992.0;
            let m = [600.0, 40.0, 1.0][ctx.below(3) as usize];
            let x = u * m;
            { let sg = ctx.flag(); dd_at(ctx, if sg { -x.max(1e-9) } else { x.max(1e-9) }) }
        }
        2 => {
            ctx.label("arg:pivot");
            let p = [600.0, -600.0, 0.25, -0.25, 0.5, 22.0, 354.0][ctx.below(7) as usize];
            let hi = pivot_near(ctx, p);
            dd_at(ctx, hi)
        }
        _ => {
            ctx.label("zero");
            Dd::new(if ctx.flag() { -0.0 } else { 0.0 }, 0.0)
        }
    };
    let x = match if ctx.chance(1, 8) { crate::fcommon::format_parameter_multiple(ctx, -60, 9) } else { None } {
        Some(hi) => {
            if ctx.chance(1, 3) {
                Dd::new(hi, 0.0)
            } else {
                dd_at(ctx, hi)
            }
        }
        None => x,
    };
    let x = if x.big().abs() > Big::from_u64(600) { Dd::new(600.0 * x.hi.signum(), 0.0) } else { x };
    let x = if ctx.chance(1, 24) { end_point_sym(ctx, 600.0) } else { x };
    let x = forced_or(ctx, x);
    x.key(ctx);
    note_dd(ctx, "x", x);
    let Some(s) = call(ctx, "sinh", x, inh::sinh) else { return };
    let Some(c) = call(ctx, "cosh", x, inh::cosh) else { return };
    let Some(t) = call(ctx, "tanh", x, inh::tanh) else { return };
    note_dd(ctx, "sinh", s);
    note_dd(ctx, "cosh", c);
    note_dd(ctx, "tanh", t);
    crate::p_forms::routes_agree(ctx, "sinh", x, s);
    crate::p_forms::routes_agree(ctx, "cosh", x, c);
    crate::p_forms::routes_agree(ctx, "tanh", x, t);
    let v = x.big();
    if v.is_zero() {
        check!(ctx, both_zero(s) && both_zero(t) && c.hi == 1.0 && c.lo == 0.0, "sinh/cosh/tanh(0) = {} / {} / {}", s.show(), c.show(), t.show());
        ctx.set_nontrivial(true);
        return;
    }
    let ws = reference(ctx, |h| h.sinh(&v));
    let wc = reference(ctx, |h| h.cosh(&v));
    let wt = reference(ctx, |h| h.tanh(&v));
    bounded(ctx, "cosh", c, &wc, &p2(-100), &Big::zero());
    bounded(ctx, "sinh", s, &ws, &p2(-100), &p2(-101));
    bounded(ctx, "tanh", t, &wt, &p2(-100), &p2(-101));
    ctx.set_nontrivial(x.lo != 0.0);
}

/// x = sinh / cosh / tanh of (k/4 or k/128) + delta, nearest double-double with a nudged low word:
/// arguments whose results sit on the range-reduction grid of the exp used inside ln
fn hyp_preimage(ctx: &mut Ctx, which: u64) -> Dd {
    ctx.label("arg:pre-image-of-inner-switch");
    let h = oracle::Hp::new(256);
    let kmax = match which {
        0 => 160,
        1 => 160,
        _ => 14,
    };
    let k = ctx.range(1, kmax);
    let base = if ctx.flag() { Big::from_i64(k).mul_pow2(-2) } else { Big::from_i64(k * 8 + ctx.range(-3, 3)).mul_pow2(-7) };
    let d = match ctx.below(4) {
        0 => Big::zero(),
        1 => Big::pow2(-ctx.range(40, 110)),
        2 => Big::pow2(-ctx.range(40, 110)).neg(),
        _ => Big::pow2(-ctx.range(10, 40)).neg(),
    };
    let t = base.add(&d);
    let v = match which {
        0 => h.sinh(&t),
        1 => h.cosh(&t),
        _ => h.tanh(&t),
    };
    let v = if which != 1 && ctx.flag() { v.neg() } else { v };
    let dd = crate::p_conv::dd_from_big(&v);
    let lo = step(dd.lo, ctx.range(-3, 3));
    if lo.is_finite() && dd.hi + lo == dd.hi {
        Dd::new(dd.hi, lo)
    } else {
        dd
    }
}

fn c18_inverse(ctx: &mut Ctx) {
    let which = ctx.below(3);
    let x = if ctx.chance(1, 8) { hyp_preimage(ctx, which) } else { c18_inverse_arg(ctx, which) };
    c18_inverse_eval(ctx, which, x)
}

fn c18_inverse_arg(ctx: &mut Ctx, which: u64) -> Dd {
    if let Some(c) = maybe_constant(ctx, 30, false) {
        return c;
    }
    if ctx.chance(1, 24) {
        return match which {
            0 => end_point_sym(ctx, 1152921504606846976.0),
            1 => end_point(ctx, 1152921504606846976.0, -1),
            _ => end_point_sym(ctx, 1.0 - 0.0009765625),
        };
    }
    match which {
        0 => {
            // asinh: |x| <= 2^60, both signs
            match ctx.weighted(&[5, 3, 1]) {
                0 => dd_closed(ctx, -60, 60, false),
                1 => {
                    let pv = [1.0, -1.0, 1e10, -1e10, 1e16, -1e16, 0.5, -0.5][ctx.below(8) as usize];
                    let hi = pivot_near(ctx, pv);
                    dd_at(ctx, hi)
                }
                _ => Dd::new(if ctx.flag() { -0.0 } else { 0.0 }, 0.0),
            }
        }
        1 => {
            // acosh: 1 < x <= 2^60, approach to 1, exactly 1, below 1
            match ctx.weighted(&[4, 4, 1, 1]) {
                0 => {
                    let d = dd_closed(ctx, 0, 60, false);
                    if d.hi < 0.0 {
                        d.neg()
                    } else {
                        d
                    }
                }
                1 => {
                    ctx.label("arg:approach 1");
                    if ctx.chance(1, 3) {
                        let d = dd_at(ctx, 1.0);
                        let d2 = Dd::new(1.0, d.lo.abs());
                        if d2.valid() && d2.lo > 0.0 {
                            d2
                        } else {
                            Dd::new(1.0, pow2_f64(-70))
                        }
                    } else {
                        let hi = step(1.0 + pow2_f64(-ctx.range(1, 52)), ctx.range(0, 2));
                        dd_at(ctx, hi)
                    }
                }
                2 => Dd::new(1.0, 0.0),
                _ => {
                    ctx.label("domain-error");
                    match ctx.below(4) {
                        0 => dd_exp(ctx, -40, -1, false),
                        1 => Dd::new(1.0, -pow2_f64(-ctx.range(55, 200))),
                        2 => {
                            // negative arguments of any magnitude (x + sqrt(x^2-1) is rounding noise there)
                            let d = dd_exp(ctx, 0, 200, false);
                            if d.hi > 0.0 {
                                d.neg()
                            } else {
                                d
                            }
                        }
                        _ => {
                            let d = dd_exp(ctx, -300, 59, true);
                            if d.hi > 0.0 {
                                d.neg()
                            } else {
                                d
                            }
                        }
                    }
                }
            }
        }
        _ => {
            // atanh: |x| <= 1 - 2^-10; and |x| >= 1
            match ctx.weighted(&[4, 3, 2, 1, 1]) {
                0 => dd_exp(ctx, -60, -1, false),
                1 => {
                    let u = ctx.bits(53) as f64 / 9007199254740992.0 * (1.0 - pow2_f64(-10));
                    let u = if u == 0.0 { 0.5 } else { u };
                    { let sg = ctx.flag(); dd_at(ctx, if sg { -u } else { u }) }
                }
                2 => {
                    ctx.label("arg:pivot");
                    let s = if ctx.flag() { -1.0 } else { 1.0 };
                    let hi = s * (1.0 - pow2_f64(-10) - pow2_f64(-ctx.range(11, 52)));
                    dd_at(ctx, hi)
                }
                3 => Dd::new(if ctx.flag() { -0.0 } else { 0.0 }, 0.0),
                _ => {
                    ctx.label("domain-error");
                    let s = if ctx.flag() { -1.0 } else { 1.0 };
                    if ctx.flag() {
                        Dd::new(s, 0.0)
                    } else {
                        let d = if ctx.flag() { dd_exp(ctx, 0, 40, false) } else { dd_exp(ctx, 0, 1023, false) };
                        if d.big().abs() >= Big::one() {
                            d
                        } else {
                            Dd::new(s * 2.0, 0.0)
                        }
                    }
                }
            }
        }
    }
}

fn c18_inverse_eval(ctx: &mut Ctx, which: u64, x: Dd) {
    x.key(ctx);
    ctx.key_u64(which);
    let name = ["asinh", "acosh", "atanh"][which as usize];
    ctx.note("function", || name.to_string());
    note_dd(ctx, "x", x);
    let f: fn(TwoFloat) -> TwoFloat = [inh::asinh as fn(TwoFloat) -> TwoFloat, inh::acosh, inh::atanh][which as usize];
    let Some(r) = call(ctx, name, x, f) else { return };
    note_dd(ctx, "result", r);
    crate::p_forms::routes_agree(ctx, name, x, r);
    let v = x.big();
    let one = Big::one();
    match which {
        0 => {
            if v.is_zero() {
                check!(ctx, both_zero(r), "asinh(0) = {}", r.show());
                ctx.set_nontrivial(true);
                return;
            }
            if v.abs() > p2(60) {
                ctx.out_of_domain();
                return;
            }
            let want = reference(ctx, |h| h.asinh(&v));
            bounded(ctx, "asinh", r, &want, &p2(-100), &p2(-98));
            if v.sign() < 0 {
                ctx.label("asinh:negative");
            }
        }
        1 => {
            if v < one {
                check!(ctx, !r.valid(), "acosh of {} (< 1) returned the valid {}", x.show(), r.show());
                ctx.set_nontrivial(true);
                return;
            }
            if v == one {
                check!(ctx, both_zero(r), "acosh(1) = {}", r.show());
                ctx.set_nontrivial(true);
                return;
            }
            if v > p2(60) {
                ctx.out_of_domain();
                return;
            }
            let want = reference(ctx, |h| h.acosh(&v));
            // 2^-100 (A + 1/A)
            let h = oracle::Hp::new(128);
            let abs = h.add(&want, &h.div(&one, &want)).mul_pow2(-100);
            bounded(ctx, "acosh", r, &want, &Big::zero(), &abs);
        }
        _ => {
            if v.abs() >= one {
                check!(ctx, !r.valid(), "atanh of {} (|x| >= 1) returned the valid {}", x.show(), r.show());
                ctx.set_nontrivial(true);
                return;
            }
            if v.is_zero() {
                check!(ctx, both_zero(r), "atanh(0) = {}", r.show());
                ctx.set_nontrivial(true);
                return;
            }
            if v.abs() > one.sub(&p2(-10)) {
                ctx.out_of_domain();
                return;
            }
            let want = reference(ctx, |h| h.atanh(&v));
            bounded(ctx, "atanh", r, &want, &p2(-100), &p2(-101));
        }
    }
    ctx.set_nontrivial(x.lo != 0.0);
}

/// "For valid x no function of the family panics": all six functions on ANY valid x.
fn c18_no_panic_total(ctx: &mut Ctx) {
    let which = ctx.below(6);
    let x = any_valid(ctx);
    x.key(ctx);
    ctx.key_u64(which);
    note_dd(ctx, "x", x);
    let (name, f): (&str, fn(TwoFloat) -> TwoFloat) =
        [("sinh", inh::sinh as fn(TwoFloat) -> TwoFloat), ("cosh", inh::cosh), ("tanh", inh::tanh), ("asinh", inh::asinh), ("acosh", inh::acosh), ("atanh", inh::atanh)][which as usize];
    ctx.note("function", || name.to_string());
    if let Some(r) = call(ctx, name, x, f) {
        if in_c01_operand_domain(x) {
            check!(ctx, normalised_or_nonfinite(r), "{name}({}) = {} is neither normalised nor non-finite", x.show(), r.show());
        }
        // the domain clauses carry no range: every valid x outside the domain
        let v = x.big();
        if which == 4 && v < Big::one() {
            check!(ctx, !r.valid(), "acosh({}) = {} should be invalid for x < 1", x.show(), r.show());
        }
        if which == 5 && v.abs() >= Big::one() {
            check!(ctx, !r.valid(), "atanh({}) = {} should be invalid for |x| >= 1", x.show(), r.show());
        }
        if v.is_zero() && which != 4 {
            let want1 = which == 1;
            check!(ctx, if want1 { r.hi == 1.0 && r.lo == 0.0 } else { both_zero(r) }, "{name}(0) = {}", r.show());
        }
    }
    ctx.set_nontrivial(x.hi.abs() > 600.0 || x.hi.abs() < 1e-290);
}

fn c18_forward_grid(ctx: &mut Ctx) {
    // +-k/128 up to 40, then +-k/2 up to 600
    let i = ctx.word();
    let k = (i >> 1) + 1;
    let v = if k <= 5120 { k as f64 / 128.0 } else { 40.0 + (k - 5120) as f64 / 2.0 };
    ctx.forced = Some((if i & 1 == 1 { -v } else { v }, 0.0));
    c18_forward(ctx);
    ctx.set_nontrivial(true);
}

fn c18_inverse_grid(ctx: &mut Ctx) {
    let i = ctx.word();
    let (which, j) = (i % 3, i / 3);
    let k = (j >> 1) + 1;
    // asinh, acosh: k/128 up to 64 (acosh from 1); atanh: k/1024 below 1
    let v = match which {
        0 => k as f64 / 128.0,
        1 => 1.0 + k as f64 / 128.0,
        _ => (k % 1024).max(1) as f64 / 1024.0,
    };
    let v = if j & 1 == 1 && which != 1 { -v } else { v };
    ctx.label("arg:exact-grid");
    c18_inverse_eval(ctx, which, Dd::new(v, 0.0));
    ctx.set_nontrivial(true);
}

pub fn c18() -> Property {
    let g = |name, eval, quick, thorough| SubCheck { name, kind: Kind::Generated { words: 40, max_items: 0 }, eval, quick, thorough };
    Property {
        id: "C18",
        rule: "sinh/cosh/tanh: both signs, log-uniform 2^-60..600, uniform in [-600,600]/[-40,40]/[-1,1], pivots ±600, ±1/4, 1/2, 22, 354, zero; asinh: both signs log-uniform 2^-60..2^60, pivots ±1, ±1e10, ±1e16; acosh: 1 < x <= 2^60 with a geometric approach to 1 (finally hi = 1 with the distance in lo alone), x = 1, x < 1; atanh: log-uniform, uniform up to 1-2^-10, approach to the limit, |x| >= 1. Reference: cancellation-free 384-bit forms. non-trivial = non-zero low word or special point; distinct = distinct (function, argument bits) Exact-grid sub-checks (complete enumerations): the generated sub-check evaluated at every argument of the form +-k/128 (or k/16, k/64, k/1024, integers, 10^k; see DESIGN 11.5) with a zero low word.",
        assumptions: vec!["reference functions: oracle::Hp at 384 bits, validated against mpmath vectors to 2^-300".into()],
        subchecks: vec![
            g("sinh_cosh_tanh", c18_forward, 200_000, 6_000_000),
            g("asinh_acosh_atanh", c18_inverse, 300_000, 8_000_000),
            g("no_panic_total", c18_no_panic_total, 400_000, 20_000_000),
            SubCheck { name: "forward_grid", kind: Kind::Enumerated { n: 2 * (5120 + 1120) }, eval: c18_forward_grid, quick: 0, thorough: 0 },
            SubCheck { name: "inverse_grid", kind: Kind::Enumerated { n: 3 * 2 * 128 * 64 }, eval: c18_inverse_grid, quick: 0, thorough: 0 },
        ],
    }
}
