use serde_json::{json, Value};
use std::collections::BTreeMap;
use std::time::Instant;
use tfcheck::engine::*;

fn verif_dir() -> String {
    std::env::var("VERIF_DIR").unwrap_or_else(|_| "/verif".to_string())
}

struct Known {
    sigs: Vec<String>,
    what: BTreeMap<String, String>,
}

fn load_known(prop: &str) -> Known {
    let path = format!("{}/known_findings.json", verif_dir());
    let mut k = Known { sigs: vec![], what: BTreeMap::new() };
    let Ok(text) = std::fs::read_to_string(&path) else { return k };
    let v: Value = serde_json::from_str(&text).expect("known_findings.json is not valid JSON");
    for e in v.get("findings").and_then(|x| x.as_array()).cloned().unwrap_or_default() {
        if e.get("status").and_then(|s| s.as_str()) == Some("known") && e.get("property").and_then(|s| s.as_str()) == Some(prop) {
            if let Some(sig) = e.get("signature").and_then(|s| s.as_str()) {
                k.sigs.push(sig.to_string());
                k.what.insert(sig.to_string(), e.get("what").and_then(|s| s.as_str()).unwrap_or("").to_string());
            }
        }
    }
    k
}

fn usage() -> ! {
    eprintln!("usage: tfcheck <ID> [--tier quick|thorough] [--seed N] [--only SUBCHECK] [--scale F] [--replay FILE]\n       tfcheck selftest | list");
    std::process::exit(2)
}

fn main() {
    install_panic_hook();
    let args: Vec<String> = std::env::args().skip(1).collect();
    if args.is_empty() {
        usage();
    }
    if args[0] == "selftest" {
        std::process::exit(tfcheck::selftest::run(&verif_dir(), args.iter().any(|a| a == "--quick")));
    }
    if args[0] == "corpus" {
        // tfcheck corpus <ID> <SUBCHECK> <DIR> <N>: writes N small valid inputs (choice words as
        // little-endian bytes) as a starting corpus for the libFuzzer target of that sub-check
        let (id, scn, dir, n) = (&args[1], &args[2], &args[3], args[4].parse::<u64>().unwrap());
        let props = tfcheck::all_properties();
        let prop = props.iter().find(|p| p.id == id.as_str()).expect("unknown property");
        let sc = prop.subchecks.iter().find(|s| s.name == scn.as_str()).expect("unknown sub-check");
        let _ = std::fs::create_dir_all(dir);
        let (words, items) = match sc.kind {
            Kind::Generated { words, max_items } => (words, max_items.min(6)),
            Kind::Enumerated { .. } => (1, 0),
        };
        let mut st = 0x5EED_u64;
        let mut next = || {
            st = st.wrapping_add(0x9E3779B97F4A7C15);
            let mut z = st;
            z = (z ^ (z >> 30)).wrapping_mul(0xBF58476D1CE4E5B9);
            z = (z ^ (z >> 27)).wrapping_mul(0x94D049BB133111EB);
            z ^ (z >> 31)
        };
        for k in 0..n {
            let mut bytes = Vec::new();
            if scn == "json_bytes" {
                let texts = ["{\"hi\":1.0,\"lo\":0.0}", "[1.5,1e-20]", "{\"lo\":-0.0,\"hi\":-2.5e300}", "{\"hi\":1.0,\"lo\":1.0}", "[1e308,1e291]", "{\"hi\":0.1,\"lo\":5e-18,\"x\":1}"];
                bytes.extend_from_slice(texts[(k as usize) % texts.len()].as_bytes());
            } else {
                for _ in 0..(words + items * 4) {
                    bytes.extend_from_slice(&next().to_le_bytes());
                }
            }
            std::fs::write(format!("{}/seed_{:03}", dir, k), bytes).unwrap();
        }
        return;
    }
    if args[0] == "list" {
        for p in tfcheck::all_properties() {
            println!("{}: {}", p.id, p.subchecks.iter().map(|s| s.name).collect::<Vec<_>>().join(" "));
        }
        return;
    }
    let id = args[0].clone();
    let mut tier = std::env::var("VERIF_TIER").unwrap_or_else(|_| "quick".into());
    let mut seed: u64 = std::env::var("VERIF_SEED").ok().and_then(|s| s.trim().parse::<i64>().ok()).map(|x| x as u64).unwrap_or(1);
    let mut only: Option<String> = None;
    let mut scale: f64 = std::env::var("VERIF_SCALE").ok().and_then(|s| s.parse().ok()).unwrap_or(1.0);
    let mut replay: Option<String> = None;
    let mut threads: usize = std::env::var("VERIF_THREADS").ok().and_then(|s| s.parse().ok()).unwrap_or(16);
    let mut i = 1;
    while i < args.len() {
        match args[i].as_str() {
            "--tier" => {
                tier = args.get(i + 1).cloned().unwrap_or_else(|| usage());
                i += 1;
            }
            "--seed" => {
                seed = args.get(i + 1).and_then(|s| s.parse::<i64>().ok()).unwrap_or_else(|| usage()) as u64;
                i += 1;
            }
            "--only" => {
                only = args.get(i + 1).cloned();
                i += 1;
            }
            "--scale" => {
                scale = args.get(i + 1).and_then(|s| s.parse().ok()).unwrap_or_else(|| usage());
                i += 1;
            }
            "--threads" => {
                threads = args.get(i + 1).and_then(|s| s.parse().ok()).unwrap_or_else(|| usage());
                i += 1;
            }
            "--replay" => {
                replay = args.get(i + 1).cloned();
                i += 1;
            }
            _ => usage(),
        }
        i += 1;
    }
    let thorough = match tier.as_str() {
        "quick" => false,
        "thorough" => true,
        _ => usage(),
    };
    let Some(prop) = tfcheck::all_properties().into_iter().find(|p| p.id == id) else {
        eprintln!("unknown property {id}");
        std::process::exit(2);
    };
    let known = load_known(&id);

    if let Some(path) = replay {
        std::process::exit(do_replay(&prop, &path, &known.sigs));
    }

    let t0 = Instant::now();
    let mut results: Vec<SubResult> = Vec::new();
    for sc in &prop.subchecks {
        if let Some(o) = &only {
            if o != sc.name {
                continue;
            }
        }
        let r = run_subcheck(prop.id, sc, thorough, seed, threads, scale, &known.sigs);
        eprintln!(
            "  {}/{}: cases={}+{} nontrivial={} distinct={} ood={} known={} worst_log2={:.2} (random phase {:.2}) {:.1}s{}",
            prop.id,
            sc.name,
            r.stats.cases,
            r.stats.climb_evals,
            r.stats.nontrivial,
            r.distinct_nontrivial,
            r.stats.ood,
            r.stats.known.values().sum::<u64>(),
            r.stats.worst_margin,
            r.stats.margin_before_climb,
            r.wall_s,
            if r.failure.is_some() { "  ** VIOLATION **" } else { "" }
        );
        results.push(r);
    }
    let wall = t0.elapsed().as_secs_f64();

    // ---- replay files for violations
    let mut violation_lines = Vec::new();
    let mut nviol = 0;
    for r in &results {
        if let Some(f) = &r.failure {
            nviol += 1;
            let sc = prop.subchecks.iter().find(|s| s.name == f.subcheck).unwrap();
            let (decoded, _) = describe(sc, &f.case, &known.sigs, true);
            let dir = format!("{}/replays/{}", verif_dir(), prop.id);
            let _ = std::fs::create_dir_all(&dir);
            let mut h = 0xcbf29ce484222325u64;
            for w in &f.case.head {
                h = (h ^ w).wrapping_mul(0x100000001b3);
            }
            for it in &f.case.items {
                for w in it {
                    h = (h ^ w).wrapping_mul(0x100000001b3);
                }
            }
            let path = format!("{}/{}-{:016x}.json", dir, f.subcheck, h);
            let doc = json!({
                "property": prop.id,
                "subcheck": f.subcheck,
                "words": words_json(&f.case),
                "detail": f.detail,
                "decoded": decoded,
                "seed": seed as i64,
                "tier": tier,
                "replay": format!("./check {} --replay {}", prop.id, path),
            });
            std::fs::write(&path, serde_json::to_string_pretty(&doc).unwrap()).expect("cannot write replay file");
            eprintln!("  violation in {}/{}: {}", prop.id, f.subcheck, f.detail);
            violation_lines.push(format!("VIOLATION property={} replay={}", prop.id, path));
        }
    }

    // ---- evidence
    let mut evaluations = 0u64;
    let mut distinct = 0u64;
    let mut by_sub = serde_json::Map::new();
    let mut samples: Vec<Value> = Vec::new();
    let mut classes: BTreeMap<String, u64> = BTreeMap::new();
    let mut known_hits: BTreeMap<String, (u64, Option<(String, CaseWords)>)> = BTreeMap::new();
    let mut all_exhaustive = !results.is_empty();
    for r in &results {
        let sc = prop.subchecks.iter().find(|s| s.name == r.name).unwrap();
        evaluations += r.stats.cases + r.stats.climb_evals;
        distinct += r.distinct_nontrivial;
        if !r.exhaustive {
            all_exhaustive = false;
        }
        let mut lab = serde_json::Map::new();
        for (k, v) in &r.stats.labels {
            lab.insert(k.to_string(), json!(v));
            *classes.entry(k.to_string()).or_insert(0) += v;
        }
        by_sub.insert(
            r.name.to_string(),
            json!({
                "cases": r.stats.cases,
                "nontrivial": r.stats.nontrivial,
                "distinct_nontrivial": r.distinct_nontrivial,
                "out_of_domain": r.stats.ood,
                "known_finding_hits": r.stats.known.values().sum::<u64>(),
                "worst_log2_err_over_bound": if r.stats.worst_margin.is_finite() { json!((r.stats.worst_margin * 100.0).round() / 100.0) } else { Value::Null },
                "exhaustive": r.exhaustive,
                "targeted_search": if r.stats.climb_evals > 0 { json!({"evaluations": r.stats.climb_evals, "improvements": r.stats.climb_improvements, "worst_log2_before": (r.stats.margin_before_climb * 100.0).round() / 100.0, "worst_log2_after": (r.stats.worst_margin * 100.0).round() / 100.0}) } else { Value::Null },
                "wall_s": (r.wall_s * 100.0).round() / 100.0,
                "classes": Value::Object(lab),
                "violation": r.failure.as_ref().map(|f| f.detail.clone()),
            }),
        );
        for (sig, n) in &r.stats.known {
            let e = known_hits.entry(sig.clone()).or_insert((0, None));
            e.0 += n;
            if e.1.is_none() {
                if let Some(cw) = r.stats.known_example.get(sig) {
                    e.1 = Some((r.name.to_string(), cw.clone()));
                }
            }
        }
        // samples: first non-trivial, a hash-selected one, the worst-margin one
        let mut picks: Vec<(&str, &CaseWords)> = Vec::new();
        if let Some(c) = r.stats.first_nontrivial.first() {
            picks.push(("first non-trivial", c));
        }
        if let Some((_, c)) = &r.stats.min_key_case {
            picks.push(("hash-selected non-trivial", c));
        }
        if let Some(c) = &r.stats.worst_case {
            picks.push(("closest to the bound", c));
        }
        for (why, cw) in picks {
            let (mut d, _) = describe(sc, cw, &known.sigs, false);
            if let Value::Object(m) = &mut d {
                m.insert("sample_kind".into(), json!(why));
            }
            samples.push(d);
        }
    }
    for (sig, (n, ex)) in &known_hits {
        let what = known.what.get(sig).cloned().unwrap_or_default();
        let exs = match ex {
            Some((scn, cw)) => {
                let sc = prop.subchecks.iter().find(|s| s.name == scn).unwrap();
                let (d, _) = describe(sc, cw, &known.sigs, false);
                format!(" example={}", d)
            }
            None => String::new(),
        };
        println!("KNOWN-FINDING: property={} {} [{}] observed {} times in this run;{}", prop.id, what, sig, n, exs.chars().take(600).collect::<String>());
    }
    if samples.is_empty() {
        samples.push(json!("no case was evaluated"));
    }
    let mut assumptions = vec![
        "f64 + - * / sqrt of the host (x86-64 SSE2) are IEEE-754 binary64 round-to-nearest-even; the Big/Hp oracle is validated against them and against mpmath golden vectors (tfcheck selftest)".to_string(),
        "proptest 1.11 generates and shrinks the u64 choice sequences; each sub-check decodes them deterministically".to_string(),
        "generated search: absence of a violation on the explored cases, not a proof".to_string(),
    ];
    assumptions.extend(prop.assumptions.iter().cloned());
    let mut coverage = json!({
        "evaluations": evaluations,
        "distinct_nontrivial": distinct,
        "rule": prop.rule,
        "samples": samples,
        "by_subcheck": Value::Object(by_sub),
        "classes": classes,
        "known_finding_hits": known_hits.iter().map(|(k, v)| (k.clone(), json!(v.0))).collect::<serde_json::Map<_, _>>(),
        "threads": threads,
    });
    if all_exhaustive {
        coverage["exhaustive"] = json!(true);
    }
    let ev = json!({
        "property_id": prop.id,
        "tier": tier,
        "seed": seed as i64,
        "level": "exploration",
        "coverage": coverage,
        "assumptions": assumptions,
        "wall_s": (wall * 100.0).round() / 100.0,
        "violations": nviol,
    });
    if only.is_none() {
        let dir = format!("{}/evidence", verif_dir());
        let _ = std::fs::create_dir_all(&dir);
        std::fs::write(format!("{}/{}.json", dir, prop.id), serde_json::to_string_pretty(&ev).unwrap()).expect("cannot write evidence");
    }
    for l in &violation_lines {
        println!("{l}");
    }
    println!(
        "{} {}: {} cases, {} distinct non-trivial, {} violations, {:.1}s",
        prop.id, tier, evaluations, distinct, nviol, wall
    );
    if tfcheck::fcommon::ORACLE_FAULT.load(std::sync::atomic::Ordering::SeqCst) {
        println!("ORACLE-FAULT: the 384-bit and 512-bit references disagreed; this run is inconclusive");
        std::process::exit(2);
    }
    std::process::exit(if nviol > 0 { 1 } else { 0 });
}

fn do_replay(prop: &Property, path: &str, known: &[String]) -> i32 {
    let text = match std::fs::read_to_string(path) {
        Ok(t) => t,
        Err(e) => {
            eprintln!("cannot read {path}: {e}");
            return 2;
        }
    };
    let v: Value = match serde_json::from_str(&text) {
        Ok(v) => v,
        Err(e) => {
            eprintln!("bad replay file: {e}");
            return 2;
        }
    };
    let scn = v.get("subcheck").and_then(|s| s.as_str()).unwrap_or("");
    let Some(sc) = prop.subchecks.iter().find(|s| s.name == scn) else {
        eprintln!("unknown sub-check {scn} for {}", prop.id);
        return 2;
    };
    let Some(cw) = v.get("words").and_then(words_from_json) else {
        eprintln!("replay file has no words");
        return 2;
    };
    let (d, r) = describe(sc, &cw, known, true);
    println!("{}", serde_json::to_string_pretty(&d).unwrap());
    match r.verdict {
        Verdict::Violation(msg) => {
            println!("replay: {msg}");
            println!("VIOLATION property={} replay={}", prop.id, path);
            1
        }
        _ => {
            println!("replay: the case passes on this tree");
            0
        }
    }
}
