fn main() {}
