//! Property checks for ajtribick/twofloat (property-based testing with an exact oracle).
pub mod api;
pub mod common;
pub mod engine;
pub mod fcommon;
pub mod fuzzing;
pub mod gen;
pub mod inh;
pub mod p_arith;
pub mod p_base;
pub mod p_conv;
pub mod p_explog;
pub mod p_forms;
pub mod p_pow;
pub mod p_round;
pub mod p_sweep;
pub mod p_text;
pub mod p_trig;
pub mod selftest;

use engine::Property;

pub fn all_properties() -> Vec<Property> {
    vec![p_sweep::c01(), p_arith::c02(), p_arith::c03(), p_arith::c04(), p_arith::c05(), p_base::c06(), p_base::c07(), p_round::c08(), p_conv::c09(), p_forms::c10(), p_sweep::c11(), p_base::c12(), p_pow::c13(), p_explog::c14(), p_explog::c15(), p_trig::c16(), p_trig::c17(), p_trig::c18(), p_arith::c19(), p_text::c20()]
}

pub fn verif_dir() -> String {
    std::env::var("VERIF_DIR").unwrap_or_else(|_| "/verif".to_string())
}

/// signatures of the findings listed with status "known" for a property (known_findings.json)
pub fn known_signatures(prop: &str) -> Vec<String> {
    let path = format!("{}/known_findings.json", verif_dir());
    let Ok(text) = std::fs::read_to_string(&path) else { return vec![] };
    let Ok(v) = serde_json::from_str::<serde_json::Value>(&text) else { return vec![] };
    let mut out = vec![];
    for e in v.get("findings").and_then(|x| x.as_array()).cloned().unwrap_or_default() {
        if e.get("status").and_then(|s| s.as_str()) == Some("known") && e.get("property").and_then(|s| s.as_str()) == Some(prop) {
            if let Some(sig) = e.get("signature").and_then(|s| s.as_str()) {
                out.push(sig.to_string());
            }
        }
    }
    out
}
