//! Property checks for ajtribick/twofloat (property-based testing with an exact oracle).
pub mod api;
pub mod common;
pub mod engine;
pub mod fcommon;
pub mod gen;
pub mod inh;
pub mod p_arith;
pub mod p_base;
pub mod p_conv;
pub mod p_explog;
pub mod p_forms;
pub mod p_pow;
pub mod p_round;
pub mod p_sweep;
pub mod p_text;
pub mod p_trig;
pub mod selftest;

use engine::Property;

pub fn all_properties() -> Vec<Property> {
    vec![p_sweep::c01(), p_arith::c02(), p_arith::c03(), p_arith::c04(), p_arith::c05(), p_base::c06(), p_base::c07(), p_round::c08(), p_conv::c09(), p_forms::c10(), p_sweep::c11(), p_base::c12(), p_pow::c13(), p_explog::c14(), p_explog::c15(), p_trig::c16(), p_trig::c17(), p_trig::c18(), p_arith::c19(), p_text::c20()]
}
