pub fn placeholder() {}
