//! C13: sqrt, cbrt, hypot, powi

use crate::check;
use crate::common::*;
use crate::engine::{guard, Ctx, Kind, Property, SubCheck};
use crate::fcommon::{force_grid, forced_or};
use crate::gen::*;
use crate::inh;
use oracle::{Big, Hp};
use std::convert::TryFrom;
use twofloat::TwoFloat;

/// (1 + s*beta)^k * x, exact
fn scaled(x: &Big, beta: &Big, s: i32, k: u32) -> Big {
    let f = if s > 0 { Big::one().add(beta) } else { Big::one().sub(beta) };
    let mut r = x.clone();
    for _ in 0..k {
        r = r.mul(&f);
    }
    r
}

/// |r - x^(1/k)| <= beta x^(1/k) for r, x > 0, decided exactly through k-th powers
fn root_within(ctx: &mut Ctx, what: &str, r: &Big, x: &Big, k: u32, beta: &Big) -> bool {
    let mut p = r.clone();
    for _ in 1..k {
        p = p.mul(r);
    }
    let lo = scaled(x, beta, -1, k);
    let hi = scaled(x, beta, 1, k);
    let ok = p >= lo && p <= hi;
    // margin: |r^k/x - 1| / (k beta)
    let d = p.sub(x).abs();
    if !d.is_zero() {
        let bound = x.mul(beta).mul_u64(k as u64);
        ctx.ratio_log2(d.log2_abs() - bound.log2_abs());
    }
    if !ok {
        let rel = if d.is_zero() { f64::NEG_INFINITY } else { d.log2_abs() - x.log2_abs() - (k as f64).log2() };
        ctx.fail(format!("{what}: relative error about 2^{rel:.2} exceeds the bound 2^{:.2}", beta.log2_abs()));
    }
    ok
}

fn c13_sqrt(ctx: &mut Ctx) {
    let c = ctx.weighted(&[12, 2, 1, 1]);
    let x = match c {
        0 => {
            let d = dd_closed(ctx, -900, 900, false);
            if d.hi < 0.0 {
                d.neg()
            } else {
                d
            }
        }
        1 => {
            // perfect squares and neighbours
            ctx.label("perfect-square");
            let r = dd_exp(ctx, -400, 400, false);
            let c = r.hi;
            let sq = match ctx.below(5) {
                0 => Dd::of(r.tf() * r.tf()),
                1 => Dd::of(TwoFloat::new_mul(c, c)), // the exact square of an f64: two words
                2 => Dd::of(TwoFloat::from(c) * TwoFloat::from(c)),
                3 => Dd::new(c * c, 0.0),
                _ => {
                    let e = Dd::of(TwoFloat::new_mul(c, c));
                    let p = Dd::new(e.hi, step(e.lo, ctx.range(-2, 2)));
                    if p.valid() { p } else { e }
                }
            };
            if sq.valid() && sq.hi > 0.0 {
                sq
            } else {
                Dd::new(4.0, 0.0)
            }
        }
        2 => {
            ctx.label("zero");
            Dd::new(if ctx.flag() { -0.0 } else { 0.0 }, if ctx.flag() { -0.0 } else { 0.0 })
        }
        _ => {
            ctx.label("negative");
            let d = dd_closed(ctx, -900, 900, false);
            if d.hi > 0.0 {
                d.neg()
            } else {
                d
            }
        }
    };
    let x = forced_or(ctx, x);
    x.key(ctx);
    note_dd(ctx, "x", x);
    let Some(r) = run_tf(ctx, "sqrt", || inh::sqrt(x.tf())) else { return };
    note_dd(ctx, "sqrt", r);
    crate::p_forms::routes_agree(ctx, "sqrt", x, r);
    let v = x.big();
    if v.is_zero() {
        check!(ctx, both_zero(r), "sqrt({}) = {} instead of 0", x.show(), r.show());
        ctx.set_nontrivial(true);
        return;
    }
    if v.sign() < 0 {
        check!(ctx, !r.valid(), "sqrt of the negative value {} returned the valid {}", x.show(), r.show());
        ctx.set_nontrivial(true);
        return;
    }
    if !check_valid(ctx, "sqrt", r) {
        return;
    }
    check!(ctx, r.hi > 0.0, "sqrt({}) = {} is not positive", x.show(), r.show());
    if r.hi > 0.0 {
        root_within(ctx, "sqrt", &r.big(), &v, 2, &ku2(32));
    }
    ctx.set_nontrivial(x.lo != 0.0);
}

fn c13_cbrt(ctx: &mut Ctx) {
    let c = ctx.weighted(&[12, 2, 1]);
    let x = match c {
        0 => dd_closed(ctx, -900, 900, false),
        1 => {
            ctx.label("perfect-cube");
            let r = dd_exp(ctx, -290, 290, false);
            // cubes (exact or up to one rounding) by every construction a caller might use: of a
            // double-double root, of an f64 root through the operators, through new_mul with the
            // rounded square on either side, as the correctly rounded exact cube, as the f64 product
            let c = r.hi;
            let cu = match ctx.below(6) {
                0 => Dd::of(r.tf() * r.tf() * r.tf()),
                1 => Dd::of(TwoFloat::from(c) * TwoFloat::from(c) * TwoFloat::from(c)),
                2 => Dd::of(TwoFloat::new_mul(c * c, c)),
                3 => Dd::of(TwoFloat::new_mul(c, c * c)),
                4 => crate::p_conv::dd_from_big(&Big::from_f64(c).mul(&Big::from_f64(c)).mul(&Big::from_f64(c))),
                _ => Dd::new(c * c * c, 0.0),
            };
            if cu.valid() && cu.hi != 0.0 {
                cu
            } else {
                Dd::new(27.0, 0.0)
            }
        }
        _ => {
            ctx.label("zero");
            Dd::new(if ctx.flag() { -0.0 } else { 0.0 }, if ctx.flag() { -0.0 } else { 0.0 })
        }
    };
    let x = forced_or(ctx, x);
    x.key(ctx);
    note_dd(ctx, "x", x);
    let Some(r) = run_tf(ctx, "cbrt", || inh::cbrt(x.tf())) else { return };
    note_dd(ctx, "cbrt", r);
    crate::p_forms::routes_agree(ctx, "cbrt", x, r);
    let v = x.big();
    if v.is_zero() {
        check!(ctx, both_zero(r), "cbrt({}) = {} instead of 0", x.show(), r.show());
        ctx.set_nontrivial(true);
        return;
    }
    if !check_valid(ctx, "cbrt", r) {
        return;
    }
    let rv = r.big();
    check!(ctx, rv.sign() == v.sign(), "cbrt({}) = {} has the wrong sign", x.show(), r.show());
    if rv.sign() == v.sign() {
        root_within(ctx, "cbrt", &rv.abs(), &v.abs(), 3, &ku2(16));
    }
    ctx.set_nontrivial(x.lo != 0.0);
}

fn c13_hypot(ctx: &mut Ctx) {
    let x = dd_closed(ctx, -400, 400, false);
    let y = if ctx.chance(1, 10) { dd_closed(ctx, -400, 400, false) } else { related(ctx, x, -400, 399) };
    let (x, y) = if ctx.chance(1, 16) {
        // integer legs around the roots of the integer-type limits (sum of squares crossing 2^63, 2^64 ...)
        let (a, _) = integer_root_boundary(ctx);
        let b = match ctx.below(3) {
            0 => integer_root_boundary(ctx).0,
            1 => a,
            _ => (a.abs() / 3.0).floor().max(1.0),
        };
        (Dd::new(a, 0.0), Dd::new(b, 0.0))
    } else {
        (x, y)
    };
    x.key(ctx);
    y.key(ctx);
    note_dd(ctx, "x", x);
    note_dd(ctx, "y", y);
    let Some(r) = run_tf(ctx, "hypot", || inh::hypot(x.tf(), y.tf())) else { return };
    note_dd(ctx, "hypot", r);
    if !check_valid(ctx, "hypot", r) {
        return;
    }
    let s = x.big().sqr().add(&y.big().sqr());
    check!(ctx, r.hi > 0.0, "hypot({}, {}) = {} is not positive", x.show(), y.show(), r.show());
    if r.hi > 0.0 {
        root_within(ctx, "hypot", &r.big(), &s, 2, &ku2(48));
    }
    ctx.set_nontrivial(x.lo != 0.0 && y.lo != 0.0);
}

/// exponent n: log-uniform in |n| with the special values always present
fn exponent_n(ctx: &mut Ctx) -> i32 {
    let c = ctx.weighted(&[10, 2, 2, 2, 1, 1, 2]);
    match c {
        0 => {
            let bits = ctx.range(1, 31) as u32;
            let m = ((ctx.word() >> (64 - bits)) | (1u64 << (bits - 1))) as i64;
            let m = m.min(i32::MAX as i64);
            (if ctx.flag() { -m } else { m }) as i32
        }
        1 => 0,
        2 => {
            if ctx.flag() {
                -1
            } else {
                1
            }
        }
        3 => {
            if ctx.flag() {
                -2
            } else {
                2
            }
        }
        4 => i32::MAX,
        5 => i32::MIN,
        _ => ctx.range(-64, 64) as i32,
    }
}

fn c13_powi(ctx: &mut Ctx) {
    let n = exponent_n(ctx);
    let an = (n as i64).unsigned_abs();
    // |x| ~ 2^(L/|n|) so that |x|^|n| ~ 2^L with L in [-900, 900]
    let x = if n == 0 || ctx.chance(1, 12) {
        dd_exp(ctx, -900, 899, true)
    } else {
        let l = ctx.range(-900_000, 900_000) as f64 / 1000.0;
        let t = (l / an as f64).exp2();
        let t = if t.is_finite() && t > 0.0 { t } else { 1.0 };
        // perturb the mantissa a little so that values are not all of the form 2^q
        let t = f64::from_bits(t.to_bits() ^ (ctx.bits(20)));
        let hi = if ctx.flag() { -t } else { t };
        dd_at(ctx, hi)
    };
    let (x, n) = if ctx.chance(1, 16) {
        let (v, r) = integer_root_boundary(ctx);
        let n = match ctx.below(4) {
            0 => r,
            1 => -r,
            2 => r + 1,
            _ => n,
        };
        (Dd::new(v, 0.0), n)
    } else {
        (x, n)
    };
    c13_powi_eval(ctx, x, n)
}

/// x = +-j/4 (j <= 128), n in [-40, 40]: the "round" calls users write
fn c13_powi_grid(ctx: &mut Ctx) {
    let i = ctx.word();
    let n = (i % 81) as i32 - 40;
    let j = i / 81;
    let x = ((j >> 1) + 1) as f64 / 4.0;
    ctx.label("arg:exact-grid");
    c13_powi_eval(ctx, Dd::new(if j & 1 == 1 { -x } else { x }, 0.0), n);
    ctx.set_nontrivial(true);
}

fn c13_sqrt_grid(ctx: &mut Ctx) {
    force_grid(ctx, 16.0, true);
    c13_sqrt(ctx);
    ctx.set_nontrivial(true);
}

fn c13_cbrt_grid(ctx: &mut Ctx) {
    force_grid(ctx, 16.0, false);
    c13_cbrt(ctx);
    ctx.set_nontrivial(true);
}

fn c13_powi_eval(ctx: &mut Ctx, x: Dd, n: i32) {
    let an = (n as i64).unsigned_abs();
    let _ = an;
    x.key(ctx);
    ctx.key_u64(n as u32 as u64);
    note_dd(ctx, "x", x);
    ctx.note("n", || n.to_string());
    let t = x.tf();
    let r = match guard(|| inh::powi(t, n)) {
        Ok(r) => Dd::of(r),
        Err(m) => {
            ctx.fail(format!("powi({}, {n}) panicked: {m}", x.show()));
            return;
        }
    };
    note_dd(ctx, "powi", r);
    {
        use num_traits::Pow;
        let same = |a: Result<TwoFloat, String>| a.map(Dd::of).ok().map(|d| same_dd(d, r)) == Some(true);
        let ok = same(guard(|| <TwoFloat as num_traits::Float>::powi(t, n))) && same(guard(|| <TwoFloat as num_traits::float::FloatCore>::powi(t, n))) && same(guard(|| Pow::pow(t, n))) && same(guard(|| Pow::pow(&t, &n)));
        check!(ctx, ok, "powi({}, {n}): a num_traits route (Float / FloatCore / Pow<i32>) differs from the inherent method = {}", x.show(), r.show());
        if let Ok(n16) = i16::try_from(n) {
            check!(ctx, same(guard(|| Pow::pow(t, n16))), "Pow<i16>::pow({}, {n}) differs from powi = {}", x.show(), r.show());
        }
        if let Ok(n8) = i8::try_from(n) {
            check!(ctx, same(guard(|| Pow::pow(t, n8))), "Pow<i8>::pow({}, {n}) differs from powi = {}", x.show(), r.show());
        }
        if let Ok(u16v) = u16::try_from(n) {
            check!(ctx, same(guard(|| Pow::pow(t, u16v))), "Pow<u16>::pow({}, {n}) differs from powi = {}", x.show(), r.show());
        }
        if let Ok(u8v) = u8::try_from(n) {
            check!(ctx, same(guard(|| Pow::pow(t, u8v))), "Pow<u8>::pow({}, {n}) differs from powi = {}", x.show(), r.show());
        }
    }
    let v = x.big();
    if n == 0 {
        if v.is_zero() {
            check!(ctx, !r.valid(), "powi(0, 0) = {} should be NaN/invalid", r.show());
        } else {
            check!(ctx, r.hi == 1.0 && r.lo == 0.0, "powi({}, 0) = {} instead of 1", x.show(), r.show());
        }
        ctx.set_nontrivial(true);
        return;
    }
    if n == 1 {
        check!(ctx, same_dd(r, x), "powi({}, 1) = {} is not x bit-for-bit", x.show(), r.show());
        ctx.set_nontrivial(x.lo != 0.0);
        return;
    }
    // powi(x, -n) is bit-identical to powi(x, n).recip() for 0 < n <= i32::MAX
    if n < 0 && n != i32::MIN {
        let via = guard(|| inh::recip(inh::powi(t, -n))).map(Dd::of);
        check!(ctx, via.as_ref().ok().map(|d| same_dd(*d, r)) == Some(true), "powi({}, {n}) = {} differs from powi(x, {}).recip() = {:?}", x.show(), r.show(), -n, via.map(|d| d.show()));
    }
    if v.is_zero() {
        ctx.out_of_domain();
        return;
    }
    // accuracy claim only when 2^-900 <= |x|^|n| <= 2^900
    let l2 = v.log2_abs() * an as f64;
    if !(l2.abs() <= 899.9) {
        ctx.out_of_domain();
        return;
    }
    let h = Hp::new(640);
    let p = h.pow_uint(&v.abs(), an);
    let mut exact = if n < 0 { h.div(&Big::one(), &p) } else { p };
    if v.sign() < 0 && an % 2 == 1 {
        exact = exact.neg();
    }
    if !check_valid(ctx, "powi", r) {
        return;
    }
    check!(ctx, r.big().sign() == exact.sign(), "powi({}, {n}) = {} has the wrong sign", x.show(), r.show());
    // (6|n| + 16) u^2, plus the reference's own error |n| 2^-600
    let beta = Big::from_u64(6 * an + 16).mul_pow2(-106).add(&Big::from_u64(an).mul_pow2(-600));
    within_rel(ctx, "powi", r, &exact, &beta);
    ctx.set_nontrivial(x.lo != 0.0 && an >= 2);
}

pub fn c13() -> Property {
    let g = |name, eval, quick, thorough| SubCheck { name, kind: Kind::Generated { words: 40, max_items: 0 }, eval, quick, thorough };
    Property {
        id: "C13",
        rule: "sqrt/cbrt: valid x with hi in [2^-900,2^900] (cbrt both signs), products r*r / r*r*r (perfect powers up to rounding), signed zeros, negative arguments for sqrt; hypot: pairs with hi in [2^-400,2^400] incl. equal/neighbouring/huge-gap relations; oracle decided exactly through k-th powers ((1-b)^k x <= r^k <= (1+b)^k x). powi: n log-uniform in |n| with 0, ±1, ±2, i32::MAX, i32::MIN always present; |x| ~ 2^(L/|n|) with L uniform in [-900,900] so x^n stays in range by construction; reference by 640-bit binary powering. non-trivial = non-zero low word (|n| >= 2 for powi) or a special point; distinct = distinct (x, n) Exact-grid sub-checks (complete enumerations): the generated sub-check evaluated at every argument of the form +-k/128 (or k/16, k/64, k/1024, integers, 10^k; see DESIGN 11.5) with a zero low word.",
        assumptions: vec![],
        subchecks: vec![
            g("sqrt", c13_sqrt, 500_000, 10_000_000),
            g("cbrt", c13_cbrt, 500_000, 10_000_000),
            g("hypot", c13_hypot, 500_000, 10_000_000),
            g("powi", c13_powi, 300_000, 8_000_000),
            SubCheck { name: "sqrt_grid", kind: Kind::Enumerated { n: 1 << 17 }, eval: c13_sqrt_grid, quick: 0, thorough: 0 },
            SubCheck { name: "cbrt_grid", kind: Kind::Enumerated { n: 1 << 17 }, eval: c13_cbrt_grid, quick: 0, thorough: 0 },
            SubCheck { name: "powi_grid", kind: Kind::Enumerated { n: 81 * 256 }, eval: c13_powi_grid, quick: 0, thorough: 0 },
        ],
    }
}
