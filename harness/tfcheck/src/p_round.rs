//! C08: floor, ceil, trunc, round, fract are exact

use crate::check;
use crate::common::*;
use crate::engine::{Ctx, Kind, Property, SubCheck};
use crate::gen::*;
use oracle::Big;
use twofloat::TwoFloat;

/// operand for the rounding functions: integer / half-integer high words combined with
/// integer / half-integer / integer±tiny / fractional low words
pub fn x_round(ctx: &mut Ctx) -> Dd {
    if ctx.chance(1, 14) {
        if let Some(d) = derived_operand(ctx, -60, 200) {
            return d;
        }
    }
    if ctx.chance(1, 6) {
        ctx.label("generic");
        return dd_all(ctx);
    }
    let e = match ctx.weighted(&[4, 4, 3, 2]) {
        0 => ctx.range(0, 60),
        1 => ctx.range(50, 125),
        2 => ctx.range(-60, 200),
        _ => ctx.range(-3, 3),
    };
    let hc = ctx.weighted(&[5, 4, 2, 3]);
    let m = mantissa(ctx);
    let neg = ctx.flag();
    let frac_bits = (52 - e).clamp(0, 52) as u32; // mantissa bits below 2^0
    let mant = match hc {
        0 => {
            ctx.label("hi:integer");
            if frac_bits >= 52 {
                0
            } else {
                (m >> frac_bits) << frac_bits
            }
        }
        1 => {
            ctx.label("hi:half-integer");
            if e >= 0 && e <= 51 {
                let fb = frac_bits - 1; // bits below 2^-1
                (((m >> frac_bits) << frac_bits) | (1u64 << fb)) & ((1u64 << 52) - 1)
            } else {
                0
            }
        }
        2 => {
            // integer * 2^-k
            let k = ctx.range(1, 10) as u32;
            let fb = frac_bits.saturating_sub(k);
            (m >> fb) << fb
        }
        _ => m,
    };
    let e = if hc == 1 && !(0..=51).contains(&e) { -1 } else { e };
    let hi = f64::from_bits(((neg as u64) << 63) | (((e + 1023) as u64) << 52) | mant);
    // low word
    let lc = ctx.weighted(&[4, 3, 3, 3, 2, 2, 1]);
    let base = low_word(ctx, hi);
    let cand = match lc {
        0 => base,
        1 => {
            ctx.label("lo:integer");
            base.trunc()
        }
        2 => {
            ctx.label("lo:half-integer");
            base.trunc() + 0.5f64.copysign(base)
        }
        3 => {
            ctx.label("lo:integer+-tiny");
            let t = base.trunc();
            if ctx.flag() {
                next_up(t)
            } else {
                next_down(t)
            }
        }
        4 => {
            ctx.label("lo:half");
            0.5f64.copysign(base)
        }
        5 => {
            ctx.label("lo:fraction");
            // |lo| < 1 with random mantissa
            let le = -(ctx.range(1, 60));
            let v = f64::from_bits((((le + 1023) as u64) << 52) | ctx.bits(52));
            v.copysign(base)
        }
        _ => 0.0f64.copysign(base),
    };
    let lo = if cand.is_finite() && hi + cand == hi { cand } else { base };
    if lo != 0.0 {
        ctx.label("lo:nonzero");
    }
    Dd::new(hi, lo)
}

fn c08_all(ctx: &mut Ctx) {
    let x = x_round(ctx);
    x.key(ctx);
    note_dd(ctx, "x", x);
    let v = x.big();
    let t = x.tf();
    use num_traits::float::FloatCore;
    let trunc_v = v.trunc();
    let cases: [(&str, Big, Box<dyn Fn() -> TwoFloat>, Box<dyn Fn() -> TwoFloat>, Box<dyn Fn() -> TwoFloat>); 5] = [
        ("floor", v.floor(), Box::new(move || crate::inh::floor(t)), Box::new(move || <TwoFloat as FloatCore>::floor(t)), Box::new(move || <TwoFloat as num_traits::Float>::floor(t))),
        ("ceil", v.ceil(), Box::new(move || crate::inh::ceil(t)), Box::new(move || <TwoFloat as FloatCore>::ceil(t)), Box::new(move || <TwoFloat as num_traits::Float>::ceil(t))),
        ("trunc", trunc_v.clone(), Box::new(move || crate::inh::trunc(t)), Box::new(move || <TwoFloat as FloatCore>::trunc(t)), Box::new(move || <TwoFloat as num_traits::Float>::trunc(t))),
        ("round", v.round_half_away(), Box::new(move || crate::inh::round(t)), Box::new(move || <TwoFloat as FloatCore>::round(t)), Box::new(move || <TwoFloat as num_traits::Float>::round(t))),
        ("fract", v.sub(&trunc_v), Box::new(move || crate::inh::fract(t)), Box::new(move || <TwoFloat as FloatCore>::fract(t)), Box::new(move || <TwoFloat as num_traits::Float>::fract(t))),
    ];
    let mut tr: Option<Dd> = None;
    let mut fr: Option<Dd> = None;
    for (name, want, f, fc, ff) in cases.iter() {
        let Some(r) = run_tf(ctx, name, || f()) else { return };
        ctx.note(name, || r.show());
        if !r.valid() {
            ctx.fail(format!("{name}({}) = {} is not a valid double-double", x.show(), r.show()));
            continue;
        }
        check!(ctx, r.big() == *want, "{name}({}) = {} but the exact result is ~{:e} (difference {:e})", x.show(), r.show(), want.approx(), r.big().sub(want).approx());
        let Some(r2) = run_tf(ctx, name, || fc()) else { return };
        let Some(r3) = run_tf(ctx, name, || ff()) else { return };
        check!(ctx, same_dd(r, r2) && same_dd(r, r3), "FloatCore/Float::{name}({}) = {} / {} differs from the inherent method = {}", x.show(), r2.show(), r3.show(), r.show());
        if *name == "trunc" {
            tr = Some(r);
        }
        if *name == "fract" {
            fr = Some(r);
        }
    }
    if let (Some(tr), Some(fr)) = (tr, fr) {
        if tr.valid() && fr.valid() {
            check!(ctx, tr.big().add(&fr.big()) == v, "trunc({0}) + fract({0}) = {1} + {2} is not the value of x", x.show(), tr.show(), fr.show());
        }
    }
    let frac_lo = x.lo != 0.0 && x.lo.fract() != 0.0;
    let hi_int_or_half = (x.hi * 2.0).fract() == 0.0;
    ctx.set_nontrivial(x.lo != 0.0 && hi_int_or_half);
    if frac_lo && x.hi.fract() == 0.0 {
        ctx.label("fraction-in-lo-only");
    }
}

pub fn c08() -> Property {
    Property {
        id: "C08",
        rule: "valid x with |x| in 2^-60..2^200 (5/6) or anywhere (1/6); high word integer / half-integer / integer*2^-k / generic; low word generic, integer, half-integer, integer±1ulp, ±1/2, pure fraction, zero, either sign; non-trivial = non-zero low word with an integer or half-integer high word; distinct = distinct operand bit patterns. All five functions and their FloatCore/Float spellings are evaluated on every case.",
        assumptions: vec![],
        subchecks: vec![SubCheck { name: "round_family", kind: Kind::Generated { words: 32, max_items: 0 }, eval: c08_all, quick: 2_000_000, thorough: 60_000_000 }],
    }
}
