//! C06 (comparisons, sign queries), C07 (no_overlap / is_valid / checked construction),
//! C12 (constants, MIN/MAX, angle conversions)

use crate::check;
use crate::common::*;
use crate::engine::{guard, Ctx, Kind, Property, SubCheck};
use crate::gen::*;
use oracle::big::pow2_f64;
use oracle::{Big, Hp};
use std::cmp::Ordering;
use std::convert::TryFrom;
use twofloat::TwoFloat;

/// Non-finite / NaN-carrying values obtained by actually calling the public API (words only).
pub fn nonfinite_pool() -> Vec<(&'static str, Dd)> {
    nonfinite_pool_objects().iter().map(|(n, t)| (*n, Dd::of(*t))).collect()
}

fn has_nan(d: Dd) -> bool {
    d.hi.is_nan() || d.lo.is_nan()
}

// ------------------------------------------------------------------ C06

fn pair_c06(ctx: &mut Ctx) -> (Dd, Dd) {
    let a = match (ctx.chance(1, 12), derived_operand(ctx, -1000, 1000)) {
        (true, Some(d)) => d,
        _ => match maybe_constant(ctx, 30, true) {
            Some(c) => c,
            None => dd_exp(ctx, -1022, 1023, true),
        },
    };
    let c = ctx.weighted(&[4, 2, 4, 2, 3, 2]);
    let b = match c {
        0 => dd_all(ctx),
        1 => {
            ctx.label("rel:equal");
            a
        }
        2 => {
            // same hi, lo moved by 0/+-1 ulp-of-lo (or a fresh low word)
            ctx.label("rel:same-hi");
            if a.hi == 0.0 {
                a
            } else {
                let k = ctx.range(-1, 1);
                let lo = step(a.lo, k);
                if k != 0 && lo.is_finite() && a.hi + lo == a.hi {
                    Dd::new(a.hi, lo)
                } else {
                    dd_at(ctx, a.hi)
                }
            }
        }
        3 => {
            ctx.label("rel:zero-sign");
            // differs only in the sign of a zero word
            if a.hi == 0.0 {
                Dd::new(-a.hi, if ctx.flag() { -a.lo } else { a.lo })
            } else if a.lo == 0.0 {
                Dd::new(a.hi, -a.lo)
            } else {
                Dd::new(a.hi, 0.0)
            }
        }
        4 => related(ctx, a, -1022, 1023),
        _ => {
            ctx.label("rel:hi-neighbour");
            if a.hi == 0.0 {
                dd_exp(ctx, -1022, 1023, false)
            } else {
                let h = step(a.hi, if ctx.flag() { 1 } else { -1 });
                if h.is_finite() && h != 0.0 && exponent(h) >= -1022 {
                    dd_at(ctx, h)
                } else {
                    a
                }
            }
        }
    };
    if ctx.flag() {
        (a, b)
    } else {
        (b, a)
    }
}

fn expect_ops(ord: Option<Ordering>) -> [bool; 6] {
    // <, <=, >, >=, ==, !=
    match ord {
        Some(Ordering::Less) => [true, true, false, false, false, true],
        Some(Ordering::Equal) => [false, true, false, true, true, false],
        Some(Ordering::Greater) => [false, false, true, true, false, true],
        None => [false, false, false, false, false, true],
    }
}

fn c06_tt(ctx: &mut Ctx) {
    let (a, b) = pair_c06(ctx);
    a.key(ctx);
    b.key(ctx);
    note_dd(ctx, "a", a);
    note_dd(ctx, "b", b);
    let want = Some(a.big().cmp(&b.big()));
    let (ta, tb) = (a.tf(), b.tf());
    let got = guard(|| (ta.partial_cmp(&tb), [ta < tb, ta <= tb, ta > tb, ta >= tb, ta == tb, ta != tb], ()));
    let Ok((pc, ops, _)) = got else {
        ctx.fail("comparison panicked".into());
        return;
    };
    check!(ctx, pc == want, "partial_cmp({}, {}) = {:?}, exact values compare {:?}", a.show(), b.show(), pc, want);
    check!(ctx, ops == expect_ops(want), "operators [<,<=,>,>=,==,!=] on ({}, {}) = {:?}, expected {:?}", a.show(), b.show(), ops, expect_ops(want));
    ctx.set_nontrivial(a.hi == b.hi);
}

fn f64_for_cmp(ctx: &mut Ctx, a: Dd) -> f64 {
    let c = ctx.weighted(&[4, 2, 2, 3, 1, 1, 1, 1, 1]);
    match c {
        0 => a.hi,
        1 => next_up(a.hi),
        2 => next_down(a.hi),
        3 => f64_any(ctx),
        4 => 0.0,
        5 => -0.0,
        6 => f64::INFINITY,
        7 => f64::NEG_INFINITY,
        _ => f64::NAN,
    }
}

fn c06_tf(ctx: &mut Ctx) {
    let a = dd_all(ctx);
    let c = f64_for_cmp(ctx, a);
    a.key(ctx);
    ctx.key_f64(c);
    note_dd(ctx, "a", a);
    note_f(ctx, "c", c);
    let want: Option<Ordering> = if c.is_nan() {
        None
    } else if c == f64::INFINITY {
        Some(Ordering::Less)
    } else if c == f64::NEG_INFINITY {
        Some(Ordering::Greater)
    } else {
        Some(a.big().cmp(&Big::from_f64(c)))
    };
    let ta = a.tf();
    let pc = ta.partial_cmp(&c);
    let ops = [ta < c, ta <= c, ta > c, ta >= c, ta == c, ta != c];
    check!(ctx, pc == want, "TwoFloat.partial_cmp(f64) on ({}, {}) = {:?}, expected {:?}", a.show(), showf(c), pc, want);
    check!(ctx, ops == expect_ops(want), "TwoFloat vs f64 operators on ({}, {}) = {:?}, expected {:?}", a.show(), showf(c), ops, expect_ops(want));
    // reversed argument order
    let wr = want.map(|o| o.reverse());
    let pcr = c.partial_cmp(&ta);
    let opsr = [c < ta, c <= ta, c > ta, c >= ta, c == ta, c != ta];
    check!(ctx, pcr == wr, "f64.partial_cmp(TwoFloat) on ({}, {}) = {:?}, expected {:?}", showf(c), a.show(), pcr, wr);
    check!(ctx, opsr == expect_ops(wr), "f64 vs TwoFloat operators on ({}, {}) = {:?}, expected {:?}", showf(c), a.show(), opsr, expect_ops(wr));
    ctx.set_nontrivial(c == a.hi && a.lo != 0.0);
}

/// symmetry, eq <=> Some(Equal), NaN words unordered: over valid values AND the non-finite pool
fn c06_nonfinite(ctx: &mut Ctx) {
    let pool = nonfinite_pool();
    let pick = |ctx: &mut Ctx| -> Dd {
        if ctx.chance(2, 3) {
            let i = ctx.below(pool.len() as u64) as usize;
            pool[i].1
        } else {
            dd_all(ctx)
        }
    };
    let a = pick(ctx);
    let b = if ctx.chance(1, 6) { a } else { pick(ctx) };
    a.key(ctx);
    b.key(ctx);
    note_dd(ctx, "a", a);
    note_dd(ctx, "b", b);
    let (ta, tb) = (a.tf(), b.tf());
    let (eq_ab, eq_ba) = (ta == tb, tb == ta);
    let (pc_ab, pc_ba) = (ta.partial_cmp(&tb), tb.partial_cmp(&ta));
    check!(ctx, eq_ab == eq_ba, "== is not symmetric: ({} == {}) = {}, reversed = {}", a.show(), b.show(), eq_ab, eq_ba);
    check!(ctx, eq_ab == (pc_ab == Some(Ordering::Equal)), "({} == {}) = {} but partial_cmp = {:?}", a.show(), b.show(), eq_ab, pc_ab);
    check!(ctx, eq_ba == (pc_ba == Some(Ordering::Equal)), "({} == {}) = {} but partial_cmp = {:?}", b.show(), a.show(), eq_ba, pc_ba);
    check!(ctx, (ta != tb) == !eq_ab, "!= inconsistent with == on ({}, {})", a.show(), b.show());
    if has_nan(a) || has_nan(b) {
        ctx.label("nan-word");
        check!(ctx, !eq_ab && !eq_ba, "an operand with a NaN word compared equal: {} vs {}", a.show(), b.show());
        check!(ctx, pc_ab.is_none() && pc_ba.is_none(), "an operand with a NaN word is ordered: {} vs {}: {:?} / {:?}", a.show(), b.show(), pc_ab, pc_ba);
        let ops = [ta < tb, ta <= tb, ta > tb, ta >= tb, tb < ta, tb <= ta, tb > ta, tb >= ta];
        check!(ctx, ops.iter().all(|x| !x), "inequality true with a NaN word: {} vs {}: {:?}", a.show(), b.show(), ops);
    }
    // the same two relational laws against an f64 on either side (any f64, infinities and NaN
    // included): `==` symmetric, and true precisely when partial_cmp says Equal
    let c = if ctx.chance(1, 3) { [f64::INFINITY, f64::NEG_INFINITY, f64::NAN, 0.0, -0.0, f64::MAX, f64::MIN][ctx.below(7) as usize] } else if ctx.flag() { a.hi } else { f64_any(ctx) };
    ctx.note("c", || showf(c));
    let (eq_ac, eq_ca) = (ta == c, c == ta);
    let (pc_ac, pc_ca) = (ta.partial_cmp(&c), c.partial_cmp(&ta));
    check!(ctx, eq_ac == eq_ca, "== is not symmetric between {} and the f64 {}: TwoFloat == f64 is {}, f64 == TwoFloat is {}", a.show(), showf(c), eq_ac, eq_ca);
    check!(ctx, eq_ac == (pc_ac == Some(Ordering::Equal)), "({} == {}) = {} but partial_cmp = {:?}", a.show(), showf(c), eq_ac, pc_ac);
    check!(ctx, eq_ca == (pc_ca == Some(Ordering::Equal)), "({} == {}) = {} but partial_cmp = {:?}", showf(c), a.show(), eq_ca, pc_ca);
    check!(ctx, (ta != c) == !eq_ac && (c != ta) == !eq_ca, "!= inconsistent with == on ({}, {})", a.show(), showf(c));
    ctx.set_nontrivial(!a.valid() || !b.valid());
}

fn c06_minmax(ctx: &mut Ctx) {
    let pool = nonfinite_pool();
    let (mut a, mut b) = pair_c06(ctx);
    let c = ctx.weighted(&[6, 1, 1, 1]);
    if c == 1 || c == 3 {
        a = pool[ctx.below(pool.len() as u64) as usize].1;
    }
    if c == 2 || c == 3 {
        b = pool[ctx.below(pool.len() as u64) as usize].1;
    }
    a.key(ctx);
    b.key(ctx);
    note_dd(ctx, "a", a);
    note_dd(ctx, "b", b);
    let (ta, tb) = (a.tf(), b.tf());
    let mn = Dd::of(ta.min(tb));
    let mx = Dd::of(ta.max(tb));
    match (a.valid(), b.valid()) {
        (true, true) => {
            let (va, vb) = (a.big(), b.big());
            let (lo, hi) = if va <= vb { (a, b) } else { (b, a) };
            let is_one_of = |r: Dd| same_dd(r, a) || same_dd(r, b);
            check!(ctx, is_one_of(mn) && mn.big() == lo.big(), "min({}, {}) = {}", a.show(), b.show(), mn.show());
            check!(ctx, is_one_of(mx) && mx.big() == hi.big(), "max({}, {}) = {}", a.show(), b.show(), mx.show());
            ctx.set_nontrivial(a.hi == b.hi && a.lo != b.lo);
        }
        (true, false) => {
            ctx.label("one-invalid");
            check!(ctx, same_dd(mn, a) && same_dd(mx, a), "min/max must skip the invalid operand {}: min = {}, max = {}", b.show(), mn.show(), mx.show());
            ctx.set_nontrivial(true);
        }
        (false, true) => {
            ctx.label("one-invalid");
            check!(ctx, same_dd(mn, b) && same_dd(mx, b), "min/max must skip the invalid operand {}: min = {}, max = {}", a.show(), mn.show(), mx.show());
            ctx.set_nontrivial(true);
        }
        _ => {}
    }
}

fn c06_sign(ctx: &mut Ctx) {
    let x = dd_all(ctx);
    let s = dd_all(ctx);
    x.key(ctx);
    s.key(ctx);
    note_dd(ctx, "x", x);
    note_dd(ctx, "s", s);
    let vx = x.big();
    let tx = x.tf();
    let ab = Dd::of(tx.abs());
    check!(ctx, ab.valid() && ab.big() == vx.abs(), "abs({}) = {}", x.show(), ab.show());
    if !vx.is_zero() {
        let neg = vx.sign() < 0;
        check!(ctx, tx.is_sign_negative() == neg && tx.is_sign_positive() == !neg, "sign queries on {} disagree with its exact value", x.show());
        let sg = Dd::of(tx.signum());
        check!(ctx, sg.hi == if neg { -1.0 } else { 1.0 } && sg.lo == 0.0, "signum({}) = {}", x.show(), sg.show());
        let vs = s.big();
        if !vs.is_zero() {
            let cs = Dd::of(tx.copysign(&s.tf()));
            let want = if vs.sign() < 0 { vx.abs().neg() } else { vx.abs() };
            check!(ctx, cs.valid() && cs.big() == want, "copysign({}, {}) = {}", x.show(), s.show(), cs.show());
        }
    }
    ctx.set_nontrivial(x.lo != 0.0 && (x.lo < 0.0) != (x.hi < 0.0));
}

pub fn c06() -> Property {
    let g = |name, eval, quick, thorough| SubCheck { name, kind: Kind::Generated { words: 48, max_items: 0 }, eval, quick, thorough };
    Property {
        id: "C06",
        rule: "valid pairs (independent, identical, same high word with low words 0/±1 ulp apart, differing only in the sign of a zero word, neighbouring high words, cancellation relations), the pool of 25 non-finite/NaN-carrying values obtained by calling the API, f64 c in {hi, succ/pred hi, any class, ±0, ±inf, NaN}; non-trivial = equal high words, or an invalid operand, or c == hi with a non-zero low word; distinct = distinct operand bit patterns",
        assumptions: vec![],
        subchecks: vec![
            g("cmp_tt", c06_tt, 1_500_000, 40_000_000),
            g("cmp_tf", c06_tf, 1_500_000, 40_000_000),
            g("nonfinite", c06_nonfinite, 500_000, 10_000_000),
            g("minmax", c06_minmax, 800_000, 20_000_000),
            g("sign", c06_sign, 500_000, 10_000_000),
        ],
    }
}

// ------------------------------------------------------------------ C07

fn c07_check_pair(ctx: &mut Ctx, a: f64, b: f64) {
    ctx.key_f64(a);
    ctx.key_f64(b);
    note_f(ctx, "a", a);
    note_f(ctx, "b", b);
    let want = a.is_finite() && a + b == a;
    if a.is_finite() && b.is_finite() {
        let big = Big::from_f64(a).add(&Big::from_f64(b)).to_f64_rn() == a;
        assert_eq!(want, big, "hardware and Big disagree on RN({:e} + {:e})", a, b);
    }
    let got = guard(|| twofloat::no_overlap(a, b));
    let Ok(got) = got else {
        ctx.fail(format!("no_overlap({}, {}) panicked", showf(a), showf(b)));
        return;
    };
    check!(ctx, got == want, "no_overlap({}, {}) = {} but a finite && RN(a+b)==a is {}", showf(a), showf(b), got, want);
    let raw = tf_hooked::verif_hooks::raw(a, b);
    let want_valid = a.is_finite() && b.is_finite() && want;
    check!(ctx, raw.is_valid() == want_valid, "is_valid() of ({}, {}) = {} expected {}", showf(a), showf(b), raw.is_valid(), want_valid);
    let t1 = TwoFloat::try_from((a, b));
    let t2 = TwoFloat::try_from([a, b]);
    check!(ctx, t1.is_ok() == want && t2.is_ok() == want, "try_from(({}, {})) ok = {}/{} expected {}", showf(a), showf(b), t1.is_ok(), t2.is_ok(), want);
    for t in [t1, t2].into_iter().flatten() {
        let tup: (f64, f64) = t.into();
        let tupr: (f64, f64) = (&t).into();
        let arr: [f64; 2] = t.into();
        let arrr: [f64; 2] = (&t).into();
        let words = [(t.hi(), t.lo()), tup, tupr, (arr[0], arr[1]), (arrr[0], arrr[1])];
        check!(
            ctx,
            words.iter().all(|w| w.0.to_bits() == a.to_bits() && w.1.to_bits() == b.to_bits()),
            "checked construction of ({}, {}) did not preserve the words bit-for-bit: {:?}",
            showf(a),
            showf(b),
            words
        );
    }
}

/// threshold neighbourhood of a: returns the b variant number `v` (0..NB)
const NB: u64 = 24;
fn b_variant(a: f64, v: u64) -> f64 {
    // half-ulp of a from its exponent field (independent re-derivation)
    let e = if a.is_finite() && a != 0.0 { exponent(a) } else { 0 };
    let p = |k: i64| -> f64 {
        if k < -1074 {
            0.0
        } else if k > 1023 {
            f64::INFINITY
        } else {
            pow2_f64(k)
        }
    };
    let h = p(e - 53);
    let q = p(e - 54);
    match v {
        0 => h,
        1 => next_down(h),
        2 => next_up(h),
        3 => q,
        4 => next_down(q),
        5 => next_up(q),
        6 => p(e - 52),
        7 => next_down(p(e - 52)),
        8 => p(e - 55),
        9 => 0.0,
        10 => f64::from_bits(1),
        11 => f64::MIN_POSITIVE,
        12 => next_down(f64::MIN_POSITIVE),
        13 => f64::INFINITY,
        14 => f64::NAN,
        15 => a,
        16 => 1.0,
        17 => h * 1.5,
        18 => q * 1.5,
        19 => next_up(next_up(h)),
        20 => next_down(next_down(h)),
        21 => next_up(next_up(q)),
        22 => f64::MAX,
        _ => a * 0.5,
    }
}

const MSHAPES: [u64; 10] = [
    0,
    1,
    2,
    3,
    (1 << 52) - 1,
    (1 << 52) - 2,
    1 << 51,
    (1 << 51) + 1,
    0x000a_aaaa_aaaa_aaaa,
    0x0005_5555_5555_5555,
];

/// deterministic grid, exhaustive over the exponent field of a
fn c07_grid(ctx: &mut Ctx) {
    let mut i = ctx.word();
    let bs = i % 2;
    i /= 2;
    let v = i % NB;
    i /= NB;
    let sa = i % 2;
    i /= 2;
    let ms = MSHAPES[(i % 10) as usize];
    i /= 10;
    let ex = i % 2048;
    let a = f64::from_bits((sa << 63) | (ex << 52) | ms);
    let b0 = b_variant(a, v);
    let b = if bs == 1 { -b0 } else { b0 };
    c07_check_pair(ctx, a, b);
    let near = v <= 8 || (17..=21).contains(&v);
    ctx.set_nontrivial(near || ex <= 1);
}
const GRID_N: u64 = 2 * NB * 2 * 10 * 2048;

fn c07_random(ctx: &mut Ctx) {
    let c = ctx.weighted(&[10, 1]);
    if c == 1 {
        ctx.label("raw-128-bit");
        let a = f64::from_bits(ctx.word());
        let b = f64::from_bits(ctx.word());
        c07_check_pair(ctx, a, b);
        return;
    }
    let a = f64_any(ctx);
    let v = ctx.below(NB);
    let mut b = b_variant(a, v);
    // move a few ulps around the threshold
    let k = ctx.range(-5, 5);
    if ctx.chance(1, 2) {
        b = step(b, k);
    }
    if ctx.chance(1, 8) {
        // random mantissa at the threshold's exponent
        if b.is_finite() && b != 0.0 {
            b = f64::from_bits((b.to_bits() & 0xfff0_0000_0000_0000) | ctx.bits(52));
        }
    }
    if ctx.flag() {
        b = -b;
    }
    c07_check_pair(ctx, a, b);
    let near = a.is_finite() && a != 0.0 && b.is_finite() && b != 0.0 && (exponent(b) - (exponent(a) - 53)).abs() <= 2;
    ctx.set_nontrivial(near || (a.is_finite() && a.abs() <= f64::MIN_POSITIVE));
}

pub fn c07() -> Property {
    Property {
        id: "C07",
        rule: "(i) complete grid: all 2048 exponent fields of a x 10 mantissa shapes x both signs x 24 b-variants at/around the half-ulp and quarter-ulp thresholds, 0, subnormal, inf, NaN x both signs; (ii) generated: a of any class, b within ±5 ulps of a threshold or with a random mantissa at the threshold exponent, plus raw 128-bit patterns; non-trivial = |b| within 2 binades of the half-ulp threshold, or a subnormal/smallest-normal/zero; distinct = distinct (a,b) bit patterns",
        assumptions: vec![],
        subchecks: vec![
            SubCheck { name: "grid", kind: Kind::Enumerated { n: GRID_N }, eval: c07_grid, quick: 0, thorough: 0 },
            SubCheck { name: "random", kind: Kind::Generated { words: 16, max_items: 0 }, eval: c07_random, quick: 3_000_000, thorough: 150_000_000 },
        ],
    }
}

// ------------------------------------------------------------------ C12

fn const_table() -> Vec<(&'static str, TwoFloat, TwoFloat, Big)> {
    use num_traits::FloatConst;
    use twofloat::consts as c;
    let h = Hp::new(640);
    let pi = h.pi();
    let one = Big::one();
    let two = Big::from_u64(2);
    let ln2 = h.ln2();
    let ln10 = h.ln10();
    let sqrt2 = h.sqrt(&two);
    let sqrtpi = h.sqrt(&pi);
    vec![
        ("E", c::E, <TwoFloat as FloatConst>::E(), h.e()),
        ("FRAC_1_PI", c::FRAC_1_PI, <TwoFloat as FloatConst>::FRAC_1_PI(), h.div(&one, &pi)),
        ("FRAC_2_PI", c::FRAC_2_PI, <TwoFloat as FloatConst>::FRAC_2_PI(), h.div(&two, &pi)),
        ("FRAC_2_SQRT_PI", c::FRAC_2_SQRT_PI, <TwoFloat as FloatConst>::FRAC_2_SQRT_PI(), h.div(&two, &sqrtpi)),
        ("FRAC_1_SQRT_2", c::FRAC_1_SQRT_2, <TwoFloat as FloatConst>::FRAC_1_SQRT_2(), h.div(&one, &sqrt2)),
        ("FRAC_PI_2", c::FRAC_PI_2, <TwoFloat as FloatConst>::FRAC_PI_2(), pi.mul_pow2(-1)),
        ("FRAC_PI_3", c::FRAC_PI_3, <TwoFloat as FloatConst>::FRAC_PI_3(), h.div(&pi, &Big::from_u64(3))),
        ("FRAC_PI_4", c::FRAC_PI_4, <TwoFloat as FloatConst>::FRAC_PI_4(), pi.mul_pow2(-2)),
        ("FRAC_PI_6", c::FRAC_PI_6, <TwoFloat as FloatConst>::FRAC_PI_6(), h.div(&pi, &Big::from_u64(6))),
        ("FRAC_PI_8", c::FRAC_PI_8, <TwoFloat as FloatConst>::FRAC_PI_8(), pi.mul_pow2(-3)),
        ("LN_10", c::LN_10, <TwoFloat as FloatConst>::LN_10(), ln10.clone()),
        ("LN_2", c::LN_2, <TwoFloat as FloatConst>::LN_2(), ln2.clone()),
        ("LOG10_E", c::LOG10_E, <TwoFloat as FloatConst>::LOG10_E(), h.div(&one, &ln10)),
        ("LOG2_E", c::LOG2_E, <TwoFloat as FloatConst>::LOG2_E(), h.div(&one, &ln2)),
        ("PI", c::PI, <TwoFloat as FloatConst>::PI(), pi.clone()),
        ("SQRT_2", c::SQRT_2, <TwoFloat as FloatConst>::SQRT_2(), sqrt2.clone()),
        ("TAU", c::TAU, <TwoFloat as FloatConst>::TAU(), pi.mul_pow2(1)),
        ("LOG10_2", c::LOG10_2, <TwoFloat as FloatConst>::LOG10_2(), h.div(&ln2, &ln10)),
        ("LOG2_10", c::LOG2_10, <TwoFloat as FloatConst>::LOG2_10(), h.div(&ln10, &ln2)),
    ]
}

const N_CONST: u64 = 19;

/// index 0..19: named constants; 19..26: associated constants
fn c12_table(ctx: &mut Ctx) {
    let i = ctx.word();
    ctx.key_u64(i);
    ctx.set_nontrivial(true);
    if i < N_CONST {
        let t = const_table();
        let (name, cst, acc, val) = &t[i as usize];
        let d = Dd::of(*cst);
        let a = Dd::of(*acc);
        ctx.note("constant", || format!("consts::{name} = {}", d.show()));
        let hi = val.to_f64_rn();
        let lo = val.sub(&Big::from_f64(hi)).to_f64_rn();
        // the 640-bit reference is far from any rounding boundary of a 107-bit quantity unless
        // the constant were an exact tie, which cannot happen for these irrational numbers
        check!(ctx, d.hi.to_bits() == hi.to_bits(), "consts::{name}.hi = {} but RN(c) = {}", showf(d.hi), showf(hi));
        check!(ctx, d.lo.to_bits() == lo.to_bits(), "consts::{name}.lo = {} but RN(c - hi) = {}", showf(d.lo), showf(lo));
        check!(ctx, d.valid(), "consts::{name} = {} is not valid", d.show());
        if d.finite() {
            within(ctx, "constant", &d.big(), val, &Big::pow2(-107), val);
        }
        check!(ctx, same_dd(d, a), "FloatConst::{name}() = {} differs from consts::{name} = {}", a.show(), d.show());
        return;
    }
    use num_traits::float::FloatCore;
    use num_traits::Bounded;
    let max = Dd::of(TwoFloat::MAX);
    let min = Dd::of(TwoFloat::MIN);
    match i - N_CONST {
        0 => {
            ctx.note("constant", || format!("MAX = {}", max.show()));
            check!(ctx, TwoFloat::MAX.is_valid() && max.valid(), "MAX = {} is not valid", max.show());
            check!(ctx, max.hi == f64::MAX, "MAX.hi = {}", showf(max.hi));
            // the largest: the next low word up is no longer a valid pair
            let up = Dd::new(max.hi, next_up(max.lo));
            check!(ctx, !up.valid() && !up.tfh().is_valid() && TwoFloat::try_from((up.hi, up.lo)).is_err(), "(f64::MAX, succ(MAX.lo)) = {} is still valid: MAX is not the largest", up.show());
            let dn = Dd::new(max.hi, next_down(max.lo));
            check!(ctx, dn.valid(), "(f64::MAX, pred(MAX.lo)) should be valid");
            check!(ctx, same_dd(Dd::of(<TwoFloat as Bounded>::max_value()), max) && same_dd(Dd::of(<TwoFloat as FloatCore>::max_value()), max) && same_dd(Dd::of(<TwoFloat as num_traits::Float>::max_value()), max), "max_value() accessors differ from MAX");
        }
        1 => {
            ctx.note("constant", || format!("MIN = {}", min.show()));
            check!(ctx, TwoFloat::MIN.is_valid() && min.valid(), "MIN = {} is not valid", min.show());
            check!(ctx, same_dd(min, max.neg()), "MIN = {} is not -MAX", min.show());
            let dn = Dd::new(min.hi, next_down(min.lo));
            check!(ctx, !dn.valid() && !dn.tfh().is_valid() && TwoFloat::try_from((dn.hi, dn.lo)).is_err(), "(f64::MIN, pred(MIN.lo)) is still valid: MIN is not the smallest");
            check!(ctx, same_dd(Dd::of(<TwoFloat as Bounded>::min_value()), min) && same_dd(Dd::of(<TwoFloat as FloatCore>::min_value()), min) && same_dd(Dd::of(<TwoFloat as num_traits::Float>::min_value()), min), "min_value() accessors differ from MIN");
        }
        2 => {
            let mp = Dd::of(TwoFloat::MIN_POSITIVE);
            ctx.note("constant", || format!("MIN_POSITIVE = {}", mp.show()));
            check!(ctx, mp.hi == pow2_f64(-1022) && mp.lo == 0.0, "MIN_POSITIVE = {}", mp.show());
            check!(ctx, same_dd(Dd::of(<TwoFloat as FloatCore>::min_positive_value()), mp), "min_positive_value() differs");
        }
        3 => {
            let n = TwoFloat::NAN;
            ctx.note("constant", || format!("NAN = {}", Dd::of(n).show()));
            #[allow(clippy::eq_op)]
            let eq = n == n;
            check!(ctx, !eq && n != n && n.partial_cmp(&n).is_none(), "NAN compares equal/ordered to itself");
            check!(ctx, !n.is_valid(), "NAN is valid");
        }
        4 => {
            let x = TwoFloat::INFINITY;
            ctx.note("constant", || format!("INFINITY = {}", Dd::of(x).show()));
            check!(ctx, !x.is_valid() && x.hi() == f64::INFINITY, "INFINITY = {}", Dd::of(x).show());
        }
        5 => {
            let x = TwoFloat::NEG_INFINITY;
            ctx.note("constant", || format!("NEG_INFINITY = {}", Dd::of(x).show()));
            check!(ctx, !x.is_valid() && x.hi() == f64::NEG_INFINITY, "NEG_INFINITY = {}", Dd::of(x).show());
        }
        _ => {
            // FloatCore accessors for the infinities / nan agree with the associated constants
            check!(ctx, same_dd(Dd::of(<TwoFloat as FloatCore>::infinity()), Dd::of(TwoFloat::INFINITY)) && same_dd(Dd::of(<TwoFloat as FloatCore>::neg_infinity()), Dd::of(TwoFloat::NEG_INFINITY)) && same_dd(Dd::of(<TwoFloat as FloatCore>::nan()), Dd::of(TwoFloat::NAN)), "FloatCore infinity/nan accessors differ");
        }
    }
}

/// every valid value lies in [MIN, MAX] (values built close to the top of the range included)
fn c12_bounds(ctx: &mut Ctx) {
    let x = if ctx.chance(1, 2) {
        // top binade, largest mantissas
        let m = ((1u64 << 52) - 1) - ctx.below(4);
        let hi = f64::from_bits(((ctx.flag() as u64) << 63) | (2046u64 << 52) | m);
        dd_at(ctx, hi)
    } else {
        dd_all(ctx)
    };
    x.key(ctx);
    note_dd(ctx, "x", x);
    let t = x.tf();
    check!(ctx, t.is_valid(), "generated value {} not accepted by is_valid", x.show());
    check!(ctx, t <= TwoFloat::MAX && t >= TwoFloat::MIN, "valid value {} outside [MIN, MAX]", x.show());
    let v = x.big();
    check!(ctx, v <= Dd::of(TwoFloat::MAX).big() && v >= Dd::of(TwoFloat::MIN).big(), "valid value {} exceeds MAX/MIN exactly", x.show());
    ctx.set_nontrivial(exponent(x.hi.abs().max(f64::MIN_POSITIVE)) == 1023);
}

fn c12_angle(ctx: &mut Ctx) {
    let deg = ctx.flag();
    let x = match maybe_constant(ctx, 30, false) {
        Some(c) => c,
        None if ctx.chance(1, 6) => {
            // whole degrees: to_radians(k) and to_degrees(k*pi/180 -+ a few ulps of the low word),
            // where results are (nearly) integers and shortcuts / snapping would live
            ctx.label("arg:whole-degrees");
            let k = match ctx.below(3) {
                0 => [30i64, 45, 60, 90, 120, 180, 270, 360, 720, 1][ctx.below(10) as usize],
                1 => ctx.range(1, 360),
                _ => ctx.range(1, 100_000),
            };
            let k = if ctx.flag() { -k } else { k };
            if deg {
                let h = Hp::new(384);
                let v = h.div(&h.pi().mul(&Big::from_i64(k)), &Big::from_u64(180));
                let d = crate::p_conv::dd_from_big(&v);
                let j = match ctx.below(4) {
                    0 => 0,
                    1 => ctx.range(-8, 8),
                    2 => ctx.range(-128, 128),
                    _ => (1i64 << ctx.range(7, 24)) * if ctx.flag() { -1 } else { 1 },
                };
                let p = Dd::new(d.hi, step(d.lo, j));
                if p.valid() && d.lo != 0.0 { p } else { d }
            } else {
                let hi = k as f64;
                if ctx.flag() { Dd::new(hi, 0.0) } else { dd_at(ctx, hi) }
            }
        }
        None if ctx.chance(1, 5) => {
            // x such that an INTERMEDIATE of a plausible evaluation order (x*180, x/pi, x*pi, x/180,
            // or the result itself) lands just above a power of two, with a low word that is a
            // uniform fraction of the admissible half ulp: where two stacked roundings line up
            ctx.label("arg:intermediate-just-above-pow2");
            let c = [180.0, 1.0 / 180.0, std::f64::consts::PI, std::f64::consts::FRAC_1_PI, 180.0 / std::f64::consts::PI, std::f64::consts::PI / 180.0][ctx.below(6) as usize];
            let k = exp_in(ctx, -440, 440);
            let eps = pow2_f64(-ctx.range(3, 30)) * (1.0 + ctx.bits(20) as f64 / 1048576.0);
            let hi = pow2_f64(k) / c * (1.0 + eps);
            let hi = if ctx.flag() { -hi } else { hi };
            let half = pow2_f64(exponent(hi) - 53);
            let frac = ctx.bits(30) as f64 / 1073741824.0;
            let lo = half * frac * if ctx.flag() { -1.0 } else { 1.0 };
            let d = Dd::new(hi, lo);
            if d.valid() && exponent(hi) >= -450 && exponent(hi) < 450 { d } else { dd_closed(ctx, -450, 450, true) }
        }
        None => dd_closed(ctx, -450, 450, true),
    };
    x.key(ctx);
    ctx.key_u64(deg as u64);
    note_dd(ctx, "x", x);
    let name = if deg { "to_degrees" } else { "to_radians" };
    let Some(r) = run_tf(ctx, name, || if deg { x.tf().to_degrees() } else { x.tf().to_radians() }) else { return };
    note_dd(ctx, "result", r);
    crate::p_forms::routes_agree(ctx, name, x, r);
    if !check_valid(ctx, name, r) {
        return;
    }
    let h = Hp::new(384);
    let pi = h.pi();
    let v = x.big();
    if v.is_zero() {
        check!(ctx, both_zero(r), "{name}(0) = {}", r.show());
        return;
    }
    let k = Big::from_u64(180);
    let exact = if deg { h.div(&v.mul(&k), &pi) } else { h.div(&v.mul(&pi), &k) };
    // 6u^2 plus the oracle's own rounding slack 2^-300
    let beta = ku2(6).add(&Big::pow2(-300));
    within_rel(ctx, name, r, &exact, &beta);
    ctx.set_nontrivial(x.lo != 0.0);
}

pub fn c12() -> Property {
    Property {
        id: "C12",
        rule: "complete table: the 19 named constants (hi == RN(c), lo == RN(c - hi) against a 640-bit reference; FloatConst accessor identical) and MAX, MIN, MIN_POSITIVE, NAN, INFINITY, NEG_INFINITY + trait accessors; generated: valid x over the whole range (half of them in the top binade with the largest mantissas) for MIN <= x <= MAX, valid x with hi in [2^-450,2^450] for the angle conversions; non-trivial = table entry, top-binade value, or non-zero low word; distinct = distinct inputs",
        assumptions: vec!["constants are irrational, so a 640-bit reference decides their correct rounding to 53+53 bits".into()],
        subchecks: vec![
            SubCheck { name: "table", kind: Kind::Enumerated { n: N_CONST + 7 }, eval: c12_table, quick: 0, thorough: 0 },
            SubCheck { name: "bounds", kind: Kind::Generated { words: 24, max_items: 0 }, eval: c12_bounds, quick: 1_000_000, thorough: 30_000_000 },
            SubCheck { name: "angle", kind: Kind::Generated { words: 24, max_items: 0 }, eval: c12_angle, quick: 3_000_000, thorough: 100_000_000 },
        ],
    }
}
