//! Engine: choice-sequence case model, proptest runner, statistics, evidence, replay.
//!
//! A *case* is a short sequence of u64 "choices" produced by proptest (or by libFuzzer
//! bytes, or read back from a replay file).  Every sub-check is a pure function
//! `fn(&mut Ctx)` that decodes the choices into structured operands (class 0 of every
//! choice is the simplest value, so proptest's shrinking of the integers shrinks the
//! operands), runs the code under test, and compares with the oracle.

use proptest::prelude::*;
use proptest::test_runner::{Config, RngSeed, TestCaseError, TestError, TestRunner};
use serde_json::{json, Value};
use std::cell::RefCell;
use std::collections::BTreeMap;
use std::panic::{catch_unwind, AssertUnwindSafe};
use std::sync::atomic::{AtomicBool, Ordering};
use std::time::Instant;

pub const ITEM_W: usize = 4;

#[derive(Clone, Debug, PartialEq)]
pub enum Verdict {
    Pass,
    OutOfDomain,
    Known(String),
    Violation(String),
}

#[derive(Clone, Debug, Default)]
pub struct CaseWords {
    pub head: Vec<u64>,
    pub items: Vec<[u64; ITEM_W]>,
}

pub struct Ctx<'a> {
    words: &'a [u64],
    pos: usize,
    pub items: &'a [[u64; ITEM_W]],
    /// replay mode: known findings are reported as violations, descriptions are recorded
    pub strict: bool,
    pub want_desc: bool,
    pub desc: Vec<(String, String)>,
    pub labels: Vec<&'static str>,
    pub nontrivial: bool,
    pub key: u64,
    /// log2(error / bound) or similar "closeness to the limit" measure; larger = closer
    pub margin: f64,
    pub verdict: Verdict,
    pub known_sigs: &'a [String],
    /// set by the enumerated exact-grid sub-checks: the argument the generated sub-check
    /// must use instead of the one it drew
    pub forced: Option<(f64, f64)>,
}

impl<'a> Ctx<'a> {
    pub fn new(cw: &'a CaseWords, known_sigs: &'a [String]) -> Ctx<'a> {
        Ctx {
            words: &cw.head,
            pos: 0,
            items: &cw.items,
            strict: false,
            want_desc: false,
            desc: Vec::new(),
            labels: Vec::new(),
            nontrivial: false,
            key: 0xcbf29ce484222325,
            margin: f64::NEG_INFINITY,
            forced: None,
            verdict: Verdict::Pass,
            known_sigs,
        }
    }
    // ---- choices
    pub fn word(&mut self) -> u64 {
        let w = self.words.get(self.pos).copied().unwrap_or(0);
        self.pos += 1;
        w
    }
    /// uniform in 0..n, monotone in the underlying word (so shrinking goes to 0)
    pub fn below(&mut self, n: u64) -> u64 {
        debug_assert!(n > 0);
        ((self.word() as u128 * n as u128) >> 64) as u64
    }
    /// k random bits (k <= 64), monotone
    pub fn bits(&mut self, k: u32) -> u64 {
        if k == 0 {
            self.word();
            0
        } else {
            self.word() >> (64 - k)
        }
    }
    pub fn flag(&mut self) -> bool {
        self.word() >> 63 == 1
    }
    /// true with probability num/den
    pub fn chance(&mut self, num: u64, den: u64) -> bool {
        self.below(den) >= den - num
    }
    /// inclusive integer range, class 0 = lo
    pub fn range(&mut self, lo: i64, hi: i64) -> i64 {
        debug_assert!(hi >= lo);
        lo + self.below((hi - lo) as u64 + 1) as i64
    }
    /// index chosen with the given weights; index 0 is the shrink target
    pub fn weighted(&mut self, weights: &[u32]) -> usize {
        let total: u64 = weights.iter().map(|&w| w as u64).sum();
        let mut r = self.below(total);
        for (i, &w) in weights.iter().enumerate() {
            if r < w as u64 {
                return i;
            }
            r -= w as u64;
        }
        weights.len() - 1
    }
    pub fn pick<T: Copy>(&mut self, xs: &[T]) -> T {
        xs[self.below(xs.len() as u64) as usize]
    }
    // ---- bookkeeping
    pub fn label(&mut self, l: &'static str) {
        if self.labels.len() < 12 {
            self.labels.push(l);
        }
    }
    pub fn key_u64(&mut self, x: u64) {
        self.key = (self.key ^ x).wrapping_mul(0x100000001b3);
        self.key ^= self.key >> 29;
    }
    pub fn key_f64(&mut self, x: f64) {
        self.key_u64(x.to_bits());
    }
    pub fn note(&mut self, name: &str, f: impl FnOnce() -> String) {
        if self.want_desc {
            self.desc.push((name.to_string(), f()));
        }
    }
    pub fn set_nontrivial(&mut self, b: bool) {
        self.nontrivial = self.nontrivial || b;
    }
    pub fn ratio_log2(&mut self, l: f64) {
        if l > self.margin {
            self.margin = l;
        }
    }
    pub fn out_of_domain(&mut self) {
        if self.verdict == Verdict::Pass {
            self.verdict = Verdict::OutOfDomain;
        }
    }
    pub fn fail(&mut self, msg: String) {
        match self.verdict {
            Verdict::Violation(_) => {}
            _ => self.verdict = Verdict::Violation(msg),
        }
    }
    /// A failure that matches a listed known finding: suppressed (and counted) in search
    /// mode when `sig` is in known_findings.json with status "known"; a violation otherwise.
    pub fn known_or_fail(&mut self, sig: &str, msg: String) {
        if !self.strict && self.known_sigs.iter().any(|s| s == sig) {
            if self.verdict == Verdict::Pass {
                self.verdict = Verdict::Known(sig.to_string());
            }
        } else {
            self.fail(format!("[{sig}] {msg}"));
        }
    }
    pub fn failed(&self) -> bool {
        matches!(self.verdict, Verdict::Violation(_))
    }
}

#[macro_export]
macro_rules! check {
    ($ctx:expr, $cond:expr, $($arg:tt)*) => {
        if !($cond) {
            $ctx.fail(format!($($arg)*));
        }
    };
}

// ------------------------------------------------------------------ sub-checks

#[derive(Clone, Copy)]
pub enum Kind {
    /// generated by proptest: `words` u64 choices (+ up to `max_items` items of ITEM_W words)
    Generated { words: usize, max_items: usize },
    /// complete enumeration of indices 0..n (the single word of the case is the index)
    Enumerated { n: u64 },
}

#[derive(Clone, Copy)]
pub struct SubCheck {
    pub name: &'static str,
    pub kind: Kind,
    pub eval: fn(&mut Ctx),
    /// number of generated cases in the quick / thorough tier
    pub quick: u64,
    pub thorough: u64,
}

pub struct Property {
    pub id: &'static str,
    pub rule: &'static str,
    pub assumptions: Vec<String>,
    pub subchecks: Vec<SubCheck>,
}

// ------------------------------------------------------------------ panic capture

thread_local! {
    static QUIET: RefCell<bool> = RefCell::new(false);
    static LAST_PANIC: RefCell<Option<String>> = RefCell::new(None);
}

pub fn install_panic_hook() {
    let default = std::panic::take_hook();
    std::panic::set_hook(Box::new(move |info| {
        let quiet = QUIET.with(|q| *q.borrow());
        if quiet {
            let msg = if let Some(s) = info.payload().downcast_ref::<&str>() {
                s.to_string()
            } else if let Some(s) = info.payload().downcast_ref::<String>() {
                s.clone()
            } else {
                "<non-string panic>".to_string()
            };
            let loc = info.location().map(|l| format!(" at {}:{}", l.file(), l.line())).unwrap_or_default();
            LAST_PANIC.with(|p| *p.borrow_mut() = Some(format!("{msg}{loc}")));
        } else {
            default(info);
        }
    }));
}

/// Runs `f` (code under test) catching a panic; returns Err(message) if it panicked.
pub fn guard<R>(f: impl FnOnce() -> R) -> Result<R, String> {
    let prev = QUIET.with(|q| std::mem::replace(&mut *q.borrow_mut(), true));
    let r = catch_unwind(AssertUnwindSafe(f));
    QUIET.with(|q| *q.borrow_mut() = prev);
    match r {
        Ok(v) => Ok(v),
        Err(_) => Err(LAST_PANIC.with(|p| p.borrow_mut().take()).unwrap_or_else(|| "panic".into())),
    }
}

/// Evaluate one case; a panic escaping the evaluator is reported as a violation
/// ("panic in check"), since on the unchanged tree no evaluator panics.
pub fn eval_case(sc: &SubCheck, cw: &CaseWords, known: &[String], strict: bool, want_desc: bool) -> CaseResult {
    let mut ctx = Ctx::new(cw, known);
    ctx.strict = strict;
    ctx.want_desc = want_desc;
    let r = guard(|| (sc.eval)(&mut ctx));
    if let Err(msg) = r {
        ctx.fail(format!("panic: {msg}"));
    }
    CaseResult {
        verdict: ctx.verdict,
        nontrivial: ctx.nontrivial,
        key: ctx.key,
        labels: ctx.labels,
        margin: ctx.margin,
        desc: ctx.desc,
    }
}

pub struct CaseResult {
    pub verdict: Verdict,
    pub nontrivial: bool,
    pub key: u64,
    pub labels: Vec<&'static str>,
    pub margin: f64,
    pub desc: Vec<(String, String)>,
}

// ------------------------------------------------------------------ statistics

#[derive(Default)]
pub struct Stats {
    pub cases: u64,
    pub nontrivial: u64,
    pub ood: u64,
    pub known: BTreeMap<String, u64>,
    pub known_example: BTreeMap<String, CaseWords>,
    pub labels: BTreeMap<&'static str, u64>,
    pub keys: Vec<u64>,
    pub worst_margin: f64,
    pub worst_case: Option<CaseWords>,
    pub first_nontrivial: Vec<CaseWords>,
    pub min_key_case: Option<(u64, CaseWords)>,
    /// the few cases closest to the bound (seeds of the targeted search)
    pub top: Vec<(f64, CaseWords)>,
    pub climb_evals: u64,
    pub climb_improvements: u64,
    pub margin_before_climb: f64,
}

const TOP_N: usize = 6;

impl Stats {
    fn new() -> Stats {
        Stats { worst_margin: f64::NEG_INFINITY, margin_before_climb: f64::NEG_INFINITY, ..Default::default() }
    }
    fn record(&mut self, cw: &CaseWords, r: &CaseResult) {
        self.cases += 1;
        for l in &r.labels {
            *self.labels.entry(l).or_insert(0) += 1;
        }
        match &r.verdict {
            Verdict::OutOfDomain => {
                self.ood += 1;
                return;
            }
            Verdict::Known(sig) => {
                *self.known.entry(sig.clone()).or_insert(0) += 1;
                self.known_example.entry(sig.clone()).or_insert_with(|| cw.clone());
            }
            _ => {}
        }
        if r.nontrivial {
            self.nontrivial += 1;
            self.keys.push(r.key);
            if self.first_nontrivial.len() < 2 {
                self.first_nontrivial.push(cw.clone());
            }
            let better = match &self.min_key_case {
                None => true,
                Some((k, _)) => r.key < *k,
            };
            if better {
                self.min_key_case = Some((r.key, cw.clone()));
            }
        }
        if r.margin > self.worst_margin {
            self.worst_margin = r.margin;
            self.worst_case = Some(cw.clone());
        }
        if r.margin.is_finite() && r.margin > -200.0 {
            self.push_top(r.margin, cw);
        }
    }
    fn push_top(&mut self, m: f64, cw: &CaseWords) {
        if self.top.len() < TOP_N {
            self.top.push((m, cw.clone()));
        } else {
            let (mut wi, mut wm) = (0, f64::INFINITY);
            for (i, t) in self.top.iter().enumerate() {
                if t.0 < wm {
                    wm = t.0;
                    wi = i;
                }
            }
            if m > wm {
                self.top[wi] = (m, cw.clone());
            }
        }
    }
    fn merge(&mut self, o: Stats) {
        self.cases += o.cases;
        self.nontrivial += o.nontrivial;
        self.ood += o.ood;
        for (k, v) in o.known {
            *self.known.entry(k).or_insert(0) += v;
        }
        for (k, v) in o.known_example {
            self.known_example.entry(k).or_insert(v);
        }
        for (k, v) in o.labels {
            *self.labels.entry(k).or_insert(0) += v;
        }
        self.keys.extend(o.keys);
        if o.worst_margin > self.worst_margin {
            self.worst_margin = o.worst_margin;
            self.worst_case = o.worst_case;
        }
        self.climb_evals += o.climb_evals;
        self.climb_improvements += o.climb_improvements;
        if o.margin_before_climb > self.margin_before_climb {
            self.margin_before_climb = o.margin_before_climb;
        }
        for c in o.first_nontrivial {
            if self.first_nontrivial.len() < 2 {
                self.first_nontrivial.push(c);
            }
        }
        match (&self.min_key_case, o.min_key_case) {
            (None, x) => self.min_key_case = x,
            (Some((k, _)), Some((k2, c2))) if k2 < *k => self.min_key_case = Some((k2, c2)),
            _ => {}
        }
    }
}

pub struct Failure {
    pub subcheck: &'static str,
    pub case: CaseWords,
    pub detail: String,
}

pub struct SubResult {
    pub name: &'static str,
    pub stats: Stats,
    pub distinct_nontrivial: u64,
    pub failure: Option<Failure>,
    pub exhaustive: bool,
    pub wall_s: f64,
}

fn mix(a: u64, b: u64) -> u64 {
    let mut z = a ^ b.wrapping_mul(0x9E3779B97F4A7C15);
    z = (z ^ (z >> 30)).wrapping_mul(0xBF58476D1CE4E5B9);
    z = (z ^ (z >> 27)).wrapping_mul(0x94D049BB133111EB);
    z ^ (z >> 31)
}

fn name_hash(s: &str) -> u64 {
    let mut h = 0xcbf29ce484222325u64;
    for b in s.bytes() {
        h = (h ^ b as u64).wrapping_mul(0x100000001b3);
    }
    h
}

fn run_generated_worker(
    sc: &SubCheck,
    words: usize,
    max_items: usize,
    cases: u64,
    seed: u64,
    known: &[String],
    stop: &AtomicBool,
) -> (Stats, Option<Failure>) {
    let mut config = Config::default();
    config.cases = cases.min(u32::MAX as u64) as u32;
    config.failure_persistence = None;
    config.rng_seed = RngSeed::Fixed(seed);
    config.max_shrink_iters = 3000;
    config.max_global_rejects = 1_000_000;
    let mut runner = TestRunner::new(config);
    let strat = (
        prop::collection::vec(any::<u64>(), words),
        prop::collection::vec(prop::array::uniform4(any::<u64>()), 0..=max_items),
    );
    let stats = RefCell::new(Stats::new());
    let failed = RefCell::new(false);
    let result = runner.run(&strat, |(head, items)| {
        if stop.load(Ordering::Relaxed) && !*failed.borrow() {
            // another worker already found a violation in this sub-check: finish quickly
            return Ok(());
        }
        let cw = CaseWords { head, items };
        let r = eval_case(sc, &cw, known, false, false);
        if !*failed.borrow() {
            stats.borrow_mut().record(&cw, &r);
        }
        match r.verdict {
            Verdict::Violation(msg) => {
                *failed.borrow_mut() = true;
                stop.store(true, Ordering::Relaxed);
                Err(TestCaseError::fail(msg))
            }
            _ => Ok(()),
        }
    });
    let mut stats = stats.into_inner();
    stats.margin_before_climb = stats.worst_margin;
    if result.is_ok() && !stop.load(Ordering::Relaxed) && !stats.top.is_empty() {
        if let Some(f) = targeted_search(sc, &mut stats, cases / 2, seed, known, stop) {
            return (stats, Some(f));
        }
    }
    let failure = match result {
        Ok(()) => None,
        Err(TestError::Fail(reason, (head, items))) => Some(Failure {
            subcheck: sc.name,
            case: CaseWords { head, items },
            detail: reason.message().to_string(),
        }),
        Err(TestError::Abort(reason)) => Some(Failure {
            subcheck: sc.name,
            case: CaseWords::default(),
            detail: format!("proptest aborted: {}", reason.message()),
        }),
    };
    (stats, failure)
}

/// Targeted search (the `target()` idea of Hypothesis, done by hand because proptest has none):
/// starting from the cases of the random phase that came closest to the bound, mutate single
/// choice words (small +-2^k steps move low mantissa bits, occasionally a fresh word or a word of
/// another seed) and keep a mutant when log2(error/bound) grows.  Every evaluated mutant goes
/// through the same evaluator, so a violation found here is an ordinary replayable case.  The
/// mutation stream is a SplitMix sequence derived from the worker seed (deterministic).
fn targeted_search(sc: &SubCheck, stats: &mut Stats, iters: u64, seed: u64, known: &[String], stop: &AtomicBool) -> Option<Failure> {
    let mut state = seed ^ 0x7A26E7ED5EA2C4;
    let mut next = move || {
        state = state.wrapping_add(0x9E3779B97F4A7C15);
        let mut z = state;
        z = (z ^ (z >> 30)).wrapping_mul(0xBF58476D1CE4E5B9);
        z = (z ^ (z >> 27)).wrapping_mul(0x94D049BB133111EB);
        z ^ (z >> 31)
    };
    let mut pool = std::mem::take(&mut stats.top);
    let n = pool.len();
    for it in 0..iters {
        if stop.load(Ordering::Relaxed) {
            break;
        }
        let i = (it as usize) % n;
        let mut cw = pool[i].1.clone();
        let total = cw.head.len() + cw.items.len() * ITEM_W;
        if total == 0 {
            break;
        }
        let nmut = 1 + (next() % 2) as usize;
        for _ in 0..nmut {
            let j = (next() % total as u64) as usize;
            let r = next();
            let w: &mut u64 = if j < cw.head.len() { &mut cw.head[j] } else { let k = j - cw.head.len(); &mut cw.items[k / ITEM_W][k % ITEM_W] };
            match r % 20 {
                0 => *w = next(),
                1 => {
                    let o = &pool[(next() as usize) % n].1;
                    if j < o.head.len() {
                        *w = o.head[j];
                    }
                }
                _ => {
                    let d = 1u64 << (8 + (r >> 8) % 46);
                    *w = if (r >> 5) & 1 == 0 { w.wrapping_add(d) } else { w.wrapping_sub(d) };
                }
            }
        }
        let r = eval_case(sc, &cw, known, false, false);
        stats.climb_evals += 1;
        if let Verdict::Violation(msg) = r.verdict {
            stop.store(true, Ordering::Relaxed);
            stats.worst_margin = stats.worst_margin.max(r.margin);
            return Some(Failure { subcheck: sc.name, case: cw, detail: format!("{msg} [found by the targeted search phase]") });
        }
        if matches!(r.verdict, Verdict::Pass) && r.margin > pool[i].0 {
            pool[i] = (r.margin, cw.clone());
            stats.climb_improvements += 1;
            if r.margin > stats.worst_margin {
                stats.worst_margin = r.margin;
                stats.worst_case = Some(cw);
            }
        }
    }
    stats.top = pool;
    None
}

pub fn run_subcheck(prop_id: &str, sc: &SubCheck, tier_thorough: bool, seed: u64, threads: usize, scale: f64, known: &[String]) -> SubResult {
    let t0 = Instant::now();
    let stop = AtomicBool::new(false);
    let mut total = Stats::new();
    let mut failure: Option<Failure> = None;
    let mut exhaustive = false;
    match sc.kind {
        Kind::Generated { words, max_items } => {
            // the thorough budgets written in the property tables are multiplied by 3 (they were sized before the
            // evaluators were measured; a thorough run of a property now takes 3-15 minutes on 16 cores)
            let n = ((if tier_thorough { sc.thorough * 3 } else { sc.quick }) as f64 * scale).ceil() as u64;
            let per = (n + threads as u64 - 1) / threads as u64;
            let results: Vec<(Stats, Option<Failure>)> = std::thread::scope(|s| {
                let hs: Vec<_> = (0..threads)
                    .map(|w| {
                        let stop = &stop;
                        let wseed = mix(mix(seed, name_hash(prop_id)), mix(name_hash(sc.name), w as u64));
                        s.spawn(move || run_generated_worker(sc, words, max_items, per, wseed, known, stop))
                    })
                    .collect();
                hs.into_iter().map(|h| h.join().expect("worker thread panicked")).collect()
            });
            for (st, f) in results {
                total.merge(st);
                if failure.is_none() {
                    failure = f;
                }
            }
        }
        Kind::Enumerated { n } => {
            exhaustive = true;
            let results: Vec<(Stats, Option<Failure>)> = std::thread::scope(|s| {
                let hs: Vec<_> = (0..threads as u64)
                    .map(|w| {
                        let stop = &stop;
                        let t = threads as u64;
                        s.spawn(move || {
                            let mut st = Stats::new();
                            let mut fl = None;
                            let mut i = w;
                            while i < n {
                                if stop.load(Ordering::Relaxed) {
                                    break;
                                }
                                let cw = CaseWords { head: vec![i], items: vec![] };
                                let r = eval_case(sc, &cw, known, false, false);
                                st.record(&cw, &r);
                                if let Verdict::Violation(msg) = r.verdict {
                                    stop.store(true, Ordering::Relaxed);
                                    fl = Some(Failure { subcheck: sc.name, case: cw, detail: msg });
                                    break;
                                }
                                i += t;
                            }
                            (st, fl)
                        })
                    })
                    .collect();
                hs.into_iter().map(|h| h.join().expect("worker thread panicked")).collect()
            });
            for (st, f) in results {
                total.merge(st);
                if failure.is_none() {
                    failure = f;
                }
            }
            if failure.is_some() {
                exhaustive = false;
            }
        }
    }
    total.keys.sort_unstable();
    total.keys.dedup();
    let distinct = total.keys.len() as u64;
    total.keys = Vec::new();
    SubResult { name: sc.name, stats: total, distinct_nontrivial: distinct, failure, exhaustive, wall_s: t0.elapsed().as_secs_f64() }
}

// ------------------------------------------------------------------ JSON helpers

pub fn words_json(cw: &CaseWords) -> Value {
    json!({
        "head": cw.head.iter().map(|w| format!("{:016x}", w)).collect::<Vec<_>>(),
        "items": cw.items.iter().map(|it| it.iter().map(|w| format!("{:016x}", w)).collect::<Vec<_>>()).collect::<Vec<_>>(),
    })
}

pub fn words_from_json(v: &Value) -> Option<CaseWords> {
    let head = v.get("head")?.as_array()?.iter().map(|x| u64::from_str_radix(x.as_str()?, 16).ok()).collect::<Option<Vec<_>>>()?;
    let mut items = Vec::new();
    if let Some(arr) = v.get("items").and_then(|x| x.as_array()) {
        for it in arr {
            let ws = it.as_array()?.iter().map(|x| u64::from_str_radix(x.as_str()?, 16).ok()).collect::<Option<Vec<_>>>()?;
            let mut a = [0u64; ITEM_W];
            for (i, w) in ws.iter().take(ITEM_W).enumerate() {
                a[i] = *w;
            }
            items.push(a);
        }
    }
    Some(CaseWords { head, items })
}

pub fn describe(sc: &SubCheck, cw: &CaseWords, known: &[String], strict: bool) -> (Value, CaseResult) {
    let r = eval_case(sc, cw, known, strict, true);
    let mut m = serde_json::Map::new();
    m.insert("subcheck".into(), json!(sc.name));
    for (k, v) in &r.desc {
        m.insert(k.clone(), json!(v));
    }
    if r.margin.is_finite() {
        m.insert("log2_err_over_bound".into(), json!((r.margin * 100.0).round() / 100.0));
    }
    m.insert("nontrivial".into(), json!(r.nontrivial));
    m.insert(
        "verdict".into(),
        json!(match &r.verdict {
            Verdict::Pass => "pass".to_string(),
            Verdict::OutOfDomain => "out-of-domain".to_string(),
            Verdict::Known(s) => format!("known-finding {s}"),
            Verdict::Violation(s) => format!("VIOLATION {s}"),
        }),
    );
    (Value::Object(m), r)
}
