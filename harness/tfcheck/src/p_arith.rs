//! C02 (error-free constructors), C03 (add/sub), C04 (mul), C05 (div/recip), C19 (rem/euclid)

use crate::check;
use crate::common::*;
use crate::engine::{guard, Ctx, Kind, Property, SubCheck};
use crate::gen::*;
use oracle::big::pow2_f64;
use oracle::Big;
use twofloat::TwoFloat;

// ------------------------------------------------------------------ C02

/// finite f64 with |x| < 2^1023, subnormals and zeros included
fn f64_c02(ctx: &mut Ctx) -> f64 {
    let c = ctx.weighted(&[10, 2, 1]);
    match c {
        0 => f64_exp(ctx, -1022, 1022),
        1 => {
            ctx.label("subnormal");
            let m = mantissa(ctx).max(1);
            f64::from_bits(((ctx.flag() as u64) << 63) | m)
        }
        _ => {
            ctx.label("zero");
            if ctx.flag() {
                -0.0
            } else {
                0.0
            }
        }
    }
}

fn f64_pair_c02(ctx: &mut Ctx) -> (f64, f64) {
    let a = f64_c02(ctx);
    let c = ctx.weighted(&[6, 1, 1, 4, 4, 3]);
    let b = match c {
        0 => f64_c02(ctx),
        1 => a,
        2 => -a,
        3 => {
            // exponent gap 0..2100 below/above
            ctx.label("rel:gap");
            if a == 0.0 {
                f64_c02(ctx)
            } else {
                let g = if ctx.chance(1, 3) { ctx.range(0, 2100) } else { ctx.range(0, 110) };
                let e = exponent(a) - g;
                let m = mantissa(ctx);
                let s = (ctx.flag() as u64) << 63;
                if e >= -1022 {
                    f64::from_bits(s | (((e + 1023) as u64) << 52) | m)
                } else if e >= -1074 {
                    let w = (e + 1075) as u32; // number of mantissa bits available
                    f64::from_bits(s | ((1u64 << (w - 1)) | (m >> (53 - w).min(52))).max(1))
                } else {
                    f64::from_bits(s | 1)
                }
            }
        }
        4 => {
            // b = +-half-ulp(a) * (1, 1+eps, 1-eps): ties and near-ties of the sum
            ctx.label("rel:half-ulp");
            if a == 0.0 || exponent(a) - 53 < -1074 {
                f64_c02(ctx)
            } else {
                let h = pow2_f64(exponent(a) - 53);
                let v = match ctx.below(5) {
                    0 => h,
                    1 => next_up(h),
                    2 => next_down(h),
                    3 => h / 2.0,
                    _ => 2.0 * h,
                };
                if ctx.flag() {
                    -v
                } else {
                    v
                }
            }
        }
        _ => {
            ctx.label("rel:ulps");
            let k = ctx.range(-3, 3);
            let v = step(a, k);
            if ctx.flag() {
                -v
            } else {
                v
            }
        }
    };
    let b = if b.is_finite() && b.abs() < pow2_f64(1023) { b } else { f64_c02(ctx) };
    (a, b)
}

fn same_rn(hi: f64, exact: &Big) -> bool {
    let want = exact.to_f64_rn();
    hi == want // equality ignoring the sign of zero; NaN never equal
}

fn c02_addsub(ctx: &mut Ctx, sub: bool) {
    let (a, b) = f64_pair_c02(ctx);
    ctx.key_f64(a);
    ctx.key_f64(b);
    note_f(ctx, "a", a);
    note_f(ctx, "b", b);
    let what = if sub { "new_sub" } else { "new_add" };
    let Some(r) = run_tf(ctx, what, || if sub { TwoFloat::new_sub(a, b) } else { TwoFloat::new_add(a, b) }) else { return };
    note_dd(ctx, "result", r);
    let exact = if sub { Big::from_f64(a).sub(&Big::from_f64(b)) } else { Big::from_f64(a).add(&Big::from_f64(b)) };
    check!(ctx, r.finite(), "{what}({}, {}) = {} is not finite", showf(a), showf(b), r.show());
    if !r.finite() {
        return;
    }
    check!(ctx, same_rn(r.hi, &exact), "{what}({}, {}): hi = {} but RN(exact) = {}", showf(a), showf(b), showf(r.hi), showf(exact.to_f64_rn()));
    check!(ctx, r.big() == exact, "{what}({}, {}): hi+lo = {} differs from the exact result (~{:e})", showf(a), showf(b), r.show(), exact.approx());
    check!(ctx, r.valid(), "{what}({}, {}) = {} not normalised", showf(a), showf(b), r.show());
    ctx.set_nontrivial(r.lo != 0.0);
}
fn c02_new_add(ctx: &mut Ctx) {
    c02_addsub(ctx, false)
}
fn c02_new_sub(ctx: &mut Ctx) {
    c02_addsub(ctx, true)
}

fn c02_new_mul(ctx: &mut Ctx) {
    // choose exponents so that the product mostly lands in the claimed range
    let a = f64_c02(ctx);
    let c = ctx.weighted(&[10, 2, 1, 1, 2]);
    let b = if a == 0.0 || c == 3 {
        f64_c02(ctx)
    } else if c == 4 && a.is_normal() {
        // product within a few ulps of a power of two 2^t - in particular the floor 2^-960 of the
        // claimed range approached from inside (hi == 2^-960 exactly with a non-zero error term)
        ctx.label("product:near-pow2");
        let t = match ctx.below(4) {
            0 | 1 => -960,
            2 => [-959, 1022, 1021, 0, -1][ctx.below(5) as usize],
            _ => ctx.range(-960, 1021),
        };
        let eb = t - exponent(a);
        if (-1021..=1022).contains(&eb) {
            let b0 = pow2_f64(t - exponent(a)) / (a.abs() * pow2_f64(-exponent(a))); // 2^t / |a|, exponent arithmetic kept in range
            let b = step(b0, ctx.range(-3, 3));
            if ctx.flag() {
                -b
            } else {
                b
            }
        } else {
            f64_c02(ctx)
        }
    } else {
        let ea = exponent(a);
        // product exponent target in [-960, 1021]
        let target = match c {
            0 => ctx.range(-960, 1021),
            1 => {
                ctx.label("edge:low");
                -960 + ctx.range(0, 2)
            }
            _ => {
                ctx.label("edge:high");
                1021 - ctx.range(0, 2)
            }
        };
        let eb = (target - ea).clamp(-1022, 1022);
        let m = mantissa(ctx);
        f64::from_bits(((ctx.flag() as u64) << 63) | (((eb + 1023) as u64) << 52) | m)
    };
    ctx.key_f64(a);
    ctx.key_f64(b);
    note_f(ctx, "a", a);
    note_f(ctx, "b", b);
    let exact = Big::from_f64(a).mul(&Big::from_f64(b));
    let in_domain = exact.is_zero() || (exact.abs() >= Big::pow2(-960) && exact.abs() < Big::pow2(1023));
    if !in_domain {
        ctx.out_of_domain();
        return;
    }
    let Some(r) = run_tf(ctx, "new_mul", || TwoFloat::new_mul(a, b)) else { return };
    note_dd(ctx, "result", r);
    check!(ctx, r.finite(), "new_mul({}, {}) = {} is not finite", showf(a), showf(b), r.show());
    if !r.finite() {
        return;
    }
    check!(ctx, same_rn(r.hi, &exact), "new_mul({}, {}): hi = {} but RN(a*b) = {}", showf(a), showf(b), showf(r.hi), showf(exact.to_f64_rn()));
    check!(ctx, r.big() == exact, "new_mul({}, {}): hi+lo = {} is not the exact product", showf(a), showf(b), r.show());
    check!(ctx, r.valid(), "new_mul({}, {}) = {} not normalised", showf(a), showf(b), r.show());
    ctx.set_nontrivial(r.lo != 0.0);
}

/// the corners of new_div's closed operand range [2^-480, 2^480]: the top end point itself,
/// the top binade and the lowest binade, in every combination
fn c02_div_corner(ctx: &mut Ctx) -> f64 {
    let v = match ctx.below(4) {
        0 => pow2_f64(480),
        1 => pow2_f64(-480),
        2 => f64::from_bits(((-480i64 + 1023) as u64) << 52 | mantissa(ctx)),
        _ => f64::from_bits(((479i64 + 1023) as u64) << 52 | mantissa(ctx)),
    };
    if ctx.flag() {
        -v
    } else {
        v
    }
}

fn c02_new_div(ctx: &mut Ctx) {
    if ctx.chance(1, 12) {
        ctx.label("range-corners");
        let a = c02_div_corner(ctx);
        let b = c02_div_corner(ctx);
        return c02_new_div_eval(ctx, a, b);
    }
    let a = f64_exp(ctx, -480, 479);
    let c = ctx.weighted(&[6, 1, 2, 2]);
    let b = match c {
        0 => f64_exp(ctx, -480, 479),
        1 => a,
        2 => {
            ctx.label("rel:ulps");
            let v = step(a, ctx.range(-3, 3));
            if ctx.flag() {
                -v
            } else {
                v
            }
        }
        _ => {
            // short divisors make exact / nearly exact quotients
            ctx.label("short-divisor");
            let k = ctx.range(1, 1 << 12) as f64;
            k * pow2_f64(exp_in(ctx, -470, 460))
        }
    };
    let b = if b.is_finite() && b != 0.0 && exponent(b) >= -480 && exponent(b) <= 479 { b } else { f64_exp(ctx, -480, 479) };
    c02_new_div_eval(ctx, a, b)
}

fn c02_new_div_eval(ctx: &mut Ctx, a: f64, b: f64) {
    ctx.key_f64(a);
    ctx.key_f64(b);
    note_f(ctx, "a", a);
    note_f(ctx, "b", b);
    let Some(r) = run_tf(ctx, "new_div", || TwoFloat::new_div(a, b)) else { return };
    note_dd(ctx, "result", r);
    check!(ctx, r.valid(), "new_div({}, {}) = {} not a valid double-double", showf(a), showf(b), r.show());
    if !r.valid() {
        return;
    }
    let (ba, bb) = (Big::from_f64(a), Big::from_f64(b));
    // floor(log2 |a/b|)
    let mut e = ba.msb_exp() - bb.msb_exp();
    if ba.abs() < bb.abs().mul_pow2(e) {
        e -= 1;
    }
    let ulp_q = Big::pow2(e - 52);
    // |hi*b - a| <= ulp(q) |b|
    let hb = Big::from_f64(r.hi).mul(&bb).sub(&ba).abs();
    check!(ctx, hb <= ulp_q.mul(&bb.abs()), "new_div({}, {}): hi = {} is more than one ulp from a/b", showf(a), showf(b), showf(r.hi));
    // |(hi+lo)*b - a| <= 3u^2 |a|
    let got_b = r.big().mul(&bb);
    within(ctx, "new_div value", &got_b, &ba, &ku2(3), &ba);
    ctx.set_nontrivial(r.lo != 0.0);
}

fn c02_from_float(ctx: &mut Ctx) {
    let x = f64_any(ctx);
    ctx.key_f64(x);
    note_f(ctx, "x", x);
    let r1 = Dd::of(TwoFloat::from_f64(x));
    let r2 = Dd::of(TwoFloat::from(x));
    for (n, r) in [("from_f64", r1), ("From<f64>", r2)] {
        check!(ctx, same_word(r.hi, x) && r.lo.to_bits() == 0, "{n}({}) = {}: argument not represented exactly with a +0 low word", showf(x), r.show());
    }
    let y = x as f32;
    let r3 = Dd::of(TwoFloat::from(y));
    check!(ctx, same_word(r3.hi, y as f64) && r3.lo.to_bits() == 0, "From<f32>({:e}) = {}", y, r3.show());
    ctx.set_nontrivial(x.is_finite() && x != 0.0);
}

// ------------------------------------------------------------------ shared operand generation

/// valid operand with high word 0 or in [2^emin, 2^emax]
fn operand(ctx: &mut Ctx, emin: i64, emax: i64) -> Dd {
    if let Some(c) = maybe_constant(ctx, 40, false) {
        return c;
    }
    if ctx.chance(1, 12) {
        if let Some(d) = derived_operand(ctx, emin, emax - 1) {
            return d;
        }
    }
    dd_closed(ctx, emin, emax, true)
}
fn operand_pair(ctx: &mut Ctx, emin: i64, emax: i64) -> (Dd, Dd) {
    let a = operand(ctx, emin, emax);
    let b = if ctx.chance(1, 40) { operand(ctx, emin, emax) } else { related(ctx, a, emin, emax - 1) };
    if ctx.flag() {
        (a, b)
    } else {
        (b, a)
    }
}
fn operand_f64(ctx: &mut Ctx, a: Dd, emin: i64, emax: i64) -> f64 {
    if ctx.chance(1, 10) {
        // small integers and simple decimal-looking factors (3, 10, 17, 255, 1000, 0.1 ...): what user code multiplies by
        ctx.label("f64:small-integer");
        let v = match ctx.below(4) {
            0 => ctx.range(2, 20) as f64,
            1 => ctx.range(2, 255) as f64,
            2 => ctx.range(256, 100_000) as f64,
            _ => [0.1, 0.2, 0.3, 0.01, 1e3, 1e6, 1e-3, 1.0 / 3.0][ctx.below(8) as usize],
        };
        return if ctx.flag() { -v } else { v };
    }
    if ctx.chance(1, 40) {
        if ctx.flag() {
            0.0
        } else {
            -0.0
        }
    } else {
        f64_related(ctx, a, emin, emax - 1)
    }
}

/// Operands shaped like the near-worst cases of the double-word product/quotient analyses
/// (Joldes, Muller, Popescu): high words a little above a power of two at different scales
/// (1 + eps, eps log-uniform), low words close to (not on) the half-ulp tie with the sign of
/// the high word, so that the individual rounding errors line up.
fn aligned_rounding_pair(ctx: &mut Ctx, emin: i64, emax: i64) -> (Dd, Dd) {
    ctx.label("rel:aligned-rounding");
    let mut mk = |ctx: &mut Ctx| -> Dd {
        let e = exp_in(ctx, emin, emax - 1);
        let raw = ctx.bits(52);
        let k = 2 + (ctx.below(44)) as u32;
        let m = (raw >> k).max(1);
        let neg = ctx.flag();
        let hi = f64::from_bits(((neg as u64) << 63) | (((e + 1023) as u64) << 52) | m);
        // |lo| = half-ulp * (1 - 2^-j * r), same sign as hi (or opposite, 1 in 4)
        let lim_e = e - 53;
        let j = 3 + ctx.below(40) as u32;
        let lm = ((1u64 << 52) - 1) - (ctx.bits(52) >> j);
        let lo = f64::from_bits((((lim_e - 1 + 1023) as u64) << 52) | lm);
        let same = !ctx.chance(1, 4);
        let lo = if neg == same { -lo } else { lo };
        let d = Dd::new(hi, lo);
        assert!(d.valid(), "aligned_rounding_pair built an invalid pair {:?}", d);
        d
    };
    let a = mk(ctx);
    let b = mk(ctx);
    (a, b)
}

/// the mixed-form analogue: an aligned double-double and an f64 whose significand sits just
/// above 1 or just below 2 (where the proven 2u^2 / 3u^2 bounds of Algorithms 4, 9, 15 are approached)
fn aligned_rounding_tf(ctx: &mut Ctx, emin: i64, emax: i64) -> (Dd, f64) {
    // keep the near-tie low word a normal number
    let (a, _) = aligned_rounding_pair(ctx, emin.max(-960), emax);
    let e = exp_in(ctx, emin.max(-1022), (emax - 1).min(1023));
    let raw = ctx.bits(52);
    let k = 2 + ctx.below(20) as u32;
    let m = if ctx.flag() { (raw >> k).max(1) } else { ((1u64 << 52) - 1) - (raw >> k) };
    let f = f64::from_bits(((ctx.flag() as u64) << 63) | (((e + 1023) as u64) << 52) | m);
    ctx.label("f64:aligned-rounding");
    (a, f)
}

/// Every reference / value spelling of a binary operator or an op-assign is claimed by the
/// properties ("every form of ..."): the spelling is chosen per case from the operand bits (no
/// generator word is consumed, so the operand distribution is unchanged).
macro_rules! spelled {
    ($sp:expr, $a:expr, $op:tt, $b:expr) => {
        match $sp & 3 {
            0 => $a $op $b,
            1 => &$a $op $b,
            2 => $a $op &$b,
            _ => &$a $op &$b,
        }
    };
}
macro_rules! spelled_assign {
    ($sp:expr, $a:expr, $op:tt, $b:expr) => {{
        let mut t = $a;
        if ($sp >> 2) & 1 == 0 {
            t $op $b;
        } else {
            t $op &$b;
        }
        t
    }};
}
fn spelling(ctx: &mut Ctx, x: f64, y: f64, z: f64) -> u64 {
    let h = (x.to_bits() ^ y.to_bits().rotate_left(21) ^ z.to_bits().rotate_left(43)).wrapping_mul(0x9e37_79b9_7f4a_7c15);
    let sp = h >> 59;
    ctx.label(["spelling:a.b", "spelling:&a.b", "spelling:a.&b", "spelling:&a.&b"][(sp & 3) as usize]);
    sp
}

#[derive(Clone, Copy, PartialEq)]
enum Form {
    TT,
    TF,
    FT,
    AssignTT,
    AssignTF,
}

// ------------------------------------------------------------------ C03

fn c03_op(ctx: &mut Ctx, sub: bool, form: Form) {
    let opname = match (sub, form) {
        (false, Form::TT) => "a + b",
        (true, Form::TT) => "a - b",
        (false, Form::TF) => "a + f",
        (true, Form::TF) => "a - f",
        (false, Form::FT) => "f + a",
        (true, Form::FT) => "f - a",
        (false, Form::AssignTT) => "a += b",
        (true, Form::AssignTT) => "a -= b",
        (false, Form::AssignTF) => "a += f",
        (true, Form::AssignTF) => "a -= f",
    };
    let (a, b, f);
    let (exact, r);
    match form {
        Form::TT | Form::AssignTT => {
            let (x, y) = operand_pair(ctx, -1000, 1000);
            a = x;
            b = y;
            a.key(ctx);
            b.key(ctx);
            note_dd(ctx, "a", a);
            note_dd(ctx, "b", b);
            exact = if sub { a.big().sub(&b.big()) } else { a.big().add(&b.big()) };
            let (ta, tb) = (a.tf(), b.tf());
            let sp = spelling(ctx, a.hi, b.hi, a.lo);
            r = run_tf(ctx, opname, || match (sub, form) {
                (false, Form::TT) => spelled!(sp, ta, +, tb),
                (true, Form::TT) => spelled!(sp, ta, -, tb),
                (false, _) => spelled_assign!(sp, ta, +=, tb),
                (true, _) => spelled_assign!(sp, ta, -=, tb),
            });
            ctx.set_nontrivial(a.lo != 0.0 && b.lo != 0.0);
            let m = a.big().abs().max(b.big().abs());
            ctx.set_nontrivial(!exact.is_zero() && exact.abs().mul_pow2(1) < m);
        }
        _ => {
            let a0 = operand(ctx, -1000, 1000);
            let f0 = operand_f64(ctx, a0, -1000, 1000);
            (a, f) = if ctx.chance(1, 8) { aligned_rounding_tf(ctx, -1000, 1000) } else { (a0, f0) };
            a.key(ctx);
            ctx.key_f64(f);
            note_dd(ctx, "a", a);
            note_f(ctx, "f", f);
            let bf = Big::from_f64(f);
            exact = match (sub, form) {
                (false, _) => a.big().add(&bf),
                (true, Form::FT) => bf.sub(&a.big()),
                (true, _) => a.big().sub(&bf),
            };
            let ta = a.tf();
            let sp = spelling(ctx, a.hi, f, a.lo);
            r = run_tf(ctx, opname, || match (sub, form) {
                (false, Form::TF) => spelled!(sp, ta, +, f),
                (true, Form::TF) => spelled!(sp, ta, -, f),
                (false, Form::FT) => spelled!(sp, f, +, ta),
                (true, Form::FT) => spelled!(sp, f, -, ta),
                (false, _) => spelled_assign!(sp, ta, +=, f),
                (true, _) => spelled_assign!(sp, ta, -=, f),
            });
            ctx.set_nontrivial(a.lo != 0.0 && f != 0.0);
            let m = a.big().abs().max(bf.abs());
            ctx.set_nontrivial(!exact.is_zero() && exact.abs().mul_pow2(1) < m);
        }
    }
    let Some(r) = r else { return };
    note_dd(ctx, "result", r);
    if !check_valid(ctx, opname, r) {
        return;
    }
    if exact.is_zero() {
        ctx.label("exact-zero-sum");
        check!(ctx, both_zero(r), "{opname}: exact result is 0 but got {}", r.show());
        return;
    }
    let beta = match form {
        Form::TT | Form::AssignTT => beta_add(),
        _ => ku2(2),
    };
    within_rel(ctx, opname, r, &exact, &beta);
}

macro_rules! wrap {
    ($name:ident, $body:expr) => {
        fn $name(ctx: &mut Ctx) {
            $body(ctx)
        }
    };
}
wrap!(c03_add_tt, |c| c03_op(c, false, Form::TT));
wrap!(c03_sub_tt, |c| c03_op(c, true, Form::TT));
wrap!(c03_add_tf, |c| c03_op(c, false, Form::TF));
wrap!(c03_sub_tf, |c| c03_op(c, true, Form::TF));
wrap!(c03_add_ft, |c| c03_op(c, false, Form::FT));
wrap!(c03_sub_ft, |c| c03_op(c, true, Form::FT));
wrap!(c03_addassign_tt, |c| c03_op(c, false, Form::AssignTT));
wrap!(c03_subassign_tt, |c| c03_op(c, true, Form::AssignTT));
wrap!(c03_addassign_tf, |c| c03_op(c, false, Form::AssignTF));
wrap!(c03_subassign_tf, |c| c03_op(c, true, Form::AssignTF));

/// Iterator::sum over TwoFloat / &TwoFloat / f64 / &f64 accumulates with exactly the
/// checked + operations: bit-identical to the explicit left fold from zero, and (so the
/// statement "accumulates with exactly these operations" is not vacuous) every partial
/// step satisfies the addition bound.
fn c03_sum(ctx: &mut Ctx) {
    let n = ctx.items.len();
    let kind = ctx.below(4);
    let mut dds: Vec<Dd> = Vec::new();
    let mut fs: Vec<f64> = Vec::new();
    let items: Vec<[u64; 4]> = ctx.items.to_vec();
    for it in &items {
        // decode each item with a private context so deleting an item does not re-shuffle the others
        let cw = crate::engine::CaseWords { head: vec![it[0], it[1], it[2], it[3], it[0] ^ it[2], it[1] ^ it[3], it[0].rotate_left(17), it[1].rotate_left(29), it[2].rotate_left(7), it[3].rotate_left(43)], items: vec![] };
        let mut c2 = Ctx::new(&cw, &[]);
        let d = dd_exp(&mut c2, -200, 200, true);
        dds.push(d);
        fs.push(d.hi);
    }
    ctx.key_u64(kind);
    for d in &dds {
        d.key(ctx);
    }
    ctx.note("kind", || ["TwoFloat", "&TwoFloat", "f64", "&f64"][kind as usize].to_string());
    ctx.note("terms", || dds.iter().map(|d| d.show()).collect::<Vec<_>>().join(", "));
    let tfs: Vec<TwoFloat> = dds.iter().map(|d| d.tf()).collect();
    let shape = ctx.below(8);
    ctx.key_u64(shape);
    ctx.note("iterator shape (0 = slice, 1.. = adaptors with other size hints)", || shape.to_string());
    let tf_refs: Vec<&TwoFloat> = tfs.iter().collect();
    let f_refs: Vec<&f64> = fs.iter().collect();
    use crate::p_forms::shaped;
    let got = guard(|| match kind {
        0 => shaped(&tfs, shape).sum::<TwoFloat>(),
        1 => shaped(&tf_refs, shape).sum::<TwoFloat>(),
        2 => shaped(&fs, shape).sum::<TwoFloat>(),
        _ => shaped(&f_refs, shape).sum::<TwoFloat>(),
    });
    let got = match got {
        Ok(g) => Dd::of(g),
        Err(m) => {
            ctx.fail(format!("sum panicked: {m}"));
            return;
        }
    };
    // explicit left fold from zero with the + operator
    let mut acc = TwoFloat::from(0.0);
    let mut exact_acc = Big::zero();
    for i in 0..n {
        let before = Dd::of(acc);
        let term = if kind < 2 { dds[i].big() } else { Big::from_f64(fs[i]) };
        acc = if kind < 2 { acc + tfs[i] } else { acc + fs[i] };
        // each step is one checked addition
        let step_exact = before.big().add(&term);
        let beta = if kind < 2 { beta_add() } else { ku2(2) };
        let r = Dd::of(acc);
        if !check_valid(ctx, "sum step", r) {
            return;
        }
        if step_exact.is_zero() {
            check!(ctx, both_zero(r), "sum step: exact zero expected, got {}", r.show());
        } else {
            within_rel(ctx, "sum step", r, &step_exact, &beta);
        }
        exact_acc = exact_acc.add(&term);
    }
    let fold = Dd::of(acc);
    note_dd(ctx, "sum", got);
    check!(ctx, same_dd(got, fold), "Iterator::sum = {} differs from the left fold with + from zero = {}", got.show(), fold.show());
    if n == 0 {
        check!(ctx, both_zero(got), "empty sum = {}", got.show());
    }
    // a non-fused source: "accumulates with exactly these operations" means the fold ends at the
    // first None and touches nothing after it
    if n > 0 {
        let mix = dds.iter().fold(0x9E3779B97F4A7C15u64, |h, d| (h ^ d.hi.to_bits() ^ d.lo.to_bits().rotate_left(17)).wrapping_mul(0x100000001b3));
        let cut = ((mix >> 20) % (n as u64 + 1)) as usize;
        let fold_range = |a: usize, b: usize| {
            let mut acc = TwoFloat::from(0.0);
            for i in a..b {
                acc = if kind < 2 { acc + tfs[i] } else { acc + fs[i] };
            }
            Dd::of(acc)
        };
        use crate::p_forms::non_fused_sums;
        let r = guard(|| match kind {
            0 => {
                let (a, nx, b) = non_fused_sums(&tfs, cut);
                (Dd::of(a), nx.is_some(), Dd::of(b))
            }
            1 => {
                let (a, nx, b) = non_fused_sums(&tf_refs, cut);
                (Dd::of(a), nx.is_some(), Dd::of(b))
            }
            2 => {
                let (a, nx, b) = non_fused_sums(&fs, cut);
                (Dd::of(a), nx.is_some(), Dd::of(b))
            }
            _ => {
                let (a, nx, b) = non_fused_sums(&f_refs, cut);
                (Dd::of(a), nx.is_some(), Dd::of(b))
            }
        });
        match r {
            Err(m) => ctx.fail(format!("sum over a non-fused source panicked: {m}")),
            Ok((first, has_next, rest)) => {
                let (wf, wr) = (fold_range(0, cut), fold_range((cut + 1).min(n), n));
                check!(ctx, same_dd(first, wf), "sum over a non-fused source (None after {cut} of {n} items) = {} but the fold of the items before the None is {}", first.show(), wf.show());
                check!(ctx, has_next == (cut < n), "sum consumed items beyond the first None of a non-fused source (None after {cut} of {n} items)");
                check!(ctx, same_dd(rest, wr), "the sum of the rest of a non-fused source = {} but the fold of the remaining items is {}", rest.show(), wr.show());
            }
        }
    }
    ctx.set_nontrivial(n >= 2 && got.lo != 0.0);
}

pub fn c02() -> Property {
    let g = |name, eval, quick, thorough| SubCheck { name, kind: Kind::Generated { words: 16, max_items: 0 }, eval, quick, thorough };
    Property {
        id: "C02",
        rule: "pairs of f64 built from (exponent class, mantissa class, relation: independent/equal/opposite/gap 0..2100/half-ulp tie/neighbouring ulps, subnormal and zero operands); non-trivial = the f64 operation was inexact (result low word non-zero); distinct = distinct operand bit patterns",
        assumptions: vec![],
        subchecks: vec![
            g("new_add", c02_new_add, 1_000_000, 40_000_000),
            g("new_sub", c02_new_sub, 1_000_000, 40_000_000),
            g("new_mul", c02_new_mul, 1_000_000, 40_000_000),
            g("new_div", c02_new_div, 1_000_000, 40_000_000),
            g("from_float", c02_from_float, 300_000, 5_000_000),
        ],
    }
}

pub fn c03() -> Property {
    let g = |name, eval, quick, thorough| SubCheck { name, kind: Kind::Generated { words: 40, max_items: 0 }, eval, quick, thorough };
    Property {
        id: "C03",
        rule: "valid operands (hi 0 or in [2^-1000,2^1000]; low-word classes tie/near-tie/gap/subnormal/zero) with constructed relations (cancellation depth 0..110, equal, negated, neighbouring ulps, exponent gap up to 2000, powers of two); non-trivial = both low words non-zero or the exact result is less than half the larger operand (cancellation); distinct = distinct operand bit patterns",
        assumptions: vec![],
        subchecks: vec![
            g("add_tt", c03_add_tt, 600_000, 30_000_000),
            g("sub_tt", c03_sub_tt, 600_000, 30_000_000),
            g("add_tf", c03_add_tf, 400_000, 20_000_000),
            g("sub_tf", c03_sub_tf, 400_000, 20_000_000),
            g("add_ft", c03_add_ft, 400_000, 20_000_000),
            g("sub_ft", c03_sub_ft, 400_000, 20_000_000),
            g("addassign_tt", c03_addassign_tt, 400_000, 20_000_000),
            g("subassign_tt", c03_subassign_tt, 400_000, 20_000_000),
            g("addassign_tf", c03_addassign_tf, 300_000, 10_000_000),
            g("subassign_tf", c03_subassign_tf, 300_000, 10_000_000),
            SubCheck { name: "sum", kind: Kind::Generated { words: 2, max_items: 40 }, eval: c03_sum, quick: 60_000, thorough: 2_000_000 },
            SubCheck { name: "sum_long", kind: Kind::Generated { words: 12, max_items: 0 }, eval: crate::p_forms::c10_sum_long, quick: 1_000, thorough: 30_000 },
        ],
    }
}

// ------------------------------------------------------------------ C04

fn c04_op(ctx: &mut Ctx, form: Form) {
    let opname = match form {
        Form::TT => "a * b",
        Form::TF => "a * f",
        Form::FT => "f * a",
        Form::AssignTT => "a *= b",
        Form::AssignTF => "a *= f",
    };
    let exact;
    let r;
    let zero_factor;
    match form {
        Form::TT | Form::AssignTT => {
            let (a, b) = if ctx.chance(1, 4) { aligned_rounding_pair(ctx, -450, 450) } else { operand_pair(ctx, -450, 450) };
            a.key(ctx);
            b.key(ctx);
            note_dd(ctx, "a", a);
            note_dd(ctx, "b", b);
            exact = a.big().mul(&b.big());
            zero_factor = a.hi == 0.0 || b.hi == 0.0;
            let (ta, tb) = (a.tf(), b.tf());
            let sp = spelling(ctx, a.hi, b.hi, a.lo);
            r = run_tf(ctx, opname, || if form == Form::TT { spelled!(sp, ta, *, tb) } else { spelled_assign!(sp, ta, *=, tb) });
            ctx.set_nontrivial(a.lo != 0.0 && b.lo != 0.0);
            if same_dd(a, b) {
                // squaring written with two references to the SAME object must give the same words
                ctx.label("same-object-square");
                let sq = run_tf(ctx, "&a * &a", || &ta * &ta);
                if let Some(sq) = sq {
                    // C04 claims the bound for this spelling too (bit-identity of spellings is C10's business)
                    if check_valid(ctx, "&a * &a", sq) && !exact.is_zero() {
                        within_rel(ctx, "&a * &a (one object)", sq, &exact, &ku2(5));
                    }
                }
            }
        }
        _ => {
            let a = operand(ctx, -450, 450);
            let f = operand_f64(ctx, a, -450, 450);
            let (a, f) = if ctx.chance(1, 6) { aligned_rounding_tf(ctx, -450, 450) } else { (a, f) };
            a.key(ctx);
            ctx.key_f64(f);
            note_dd(ctx, "a", a);
            note_f(ctx, "f", f);
            exact = a.big().mul(&Big::from_f64(f));
            zero_factor = a.hi == 0.0 || f == 0.0;
            let ta = a.tf();
            let sp = spelling(ctx, a.hi, f, a.lo);
            r = run_tf(ctx, opname, || match form {
                Form::TF => spelled!(sp, ta, *, f),
                Form::FT => spelled!(sp, f, *, ta),
                _ => spelled_assign!(sp, ta, *=, f),
            });
            ctx.set_nontrivial(a.lo != 0.0 && f != 0.0);
        }
    }
    let Some(r) = r else { return };
    note_dd(ctx, "result", r);
    if !check_valid(ctx, opname, r) {
        return;
    }
    if zero_factor {
        ctx.label("zero-factor");
        check!(ctx, both_zero(r), "{opname}: zero factor but product = {}", r.show());
        return;
    }
    let beta = match form {
        Form::TT | Form::AssignTT => ku2(5),
        _ => ku2(2),
    };
    within_rel(ctx, opname, r, &exact, &beta);
}
wrap!(c04_mul_tt, |c| c04_op(c, Form::TT));
wrap!(c04_mul_tf, |c| c04_op(c, Form::TF));
wrap!(c04_mul_ft, |c| c04_op(c, Form::FT));
wrap!(c04_mulassign_tt, |c| c04_op(c, Form::AssignTT));
wrap!(c04_mulassign_tf, |c| c04_op(c, Form::AssignTF));

/// exact points: multiplying by +-1 is exact; by 2^k exact when lo*2^k does not underflow

/// Operand whose low word, scaled by 2^-k, lands in the lowest normal binades
/// [2^-1022, 2^-1018): the edge of the "scaled low word does not underflow" clause.
fn underflow_edge_operand(ctx: &mut Ctx, k: i64) -> Option<Dd> {
    let t = -1022 + ctx.below(4) as i64; // exponent of the scaled low word
    let elo = t + k;
    if elo < -1022 || elo + 54 > 450 {
        return None;
    }
    let m = mantissa(ctx) | (ctx.flag() as u64); // odd last bit half of the time
    let lo = ((1u64 << 52) | (m & ((1u64 << 52) - 1))) as f64 * pow2_f64(elo - 52);
    let ehi = ctx.range((elo + 54).max(-450), 450);
    let hi = ((1u64 << 52) | (mantissa(ctx) & ((1u64 << 52) - 1))) as f64 * pow2_f64(ehi - 52);
    let d = Dd::new(if ctx.flag() { -hi } else { hi }, if ctx.flag() { -lo } else { lo });
    ctx.label("operand:underflow-edge");
    if d.valid() { Some(d) } else { None }
}

fn c04_exact_points(ctx: &mut Ctx) {
    let mut a = operand(ctx, -450, 450);
    let which = ctx.below(6);
    // every power of two of the stated operand range
    let k = if ctx.flag() { ctx.range(-200, 200) } else { ctx.range(-450, 450) };
    let s = if ctx.flag() { -1.0 } else { 1.0 };
    if ctx.chance(1, 4) {
        if let Some(e) = underflow_edge_operand(ctx, -k) {
            a = e;
        }
    }
    a.key(ctx);
    ctx.key_u64(which);
    ctx.key_u64(k as u64);
    note_dd(ctx, "a", a);
    let (fac, is_one) = if which < 2 { (s, true) } else { (s * pow2_f64(k), false) };
    note_f(ctx, "factor", fac);
    let ta = a.tf();
    let forms: [(&str, Box<dyn Fn() -> TwoFloat>); 5] = [
        ("a * f", Box::new(move || ta * fac)),
        ("f * a", Box::new(move || fac * ta)),
        ("a * TwoFloat(f)", Box::new(move || ta * TwoFloat::from(fac))),
        ("TwoFloat(f) * a", Box::new(move || TwoFloat::from(fac) * ta)),
        ("a *= f", Box::new(move || {
            let mut t = ta;
            t *= fac;
            t
        })),
    ];
    let exact = a.big().mul(&Big::from_f64(fac));
    // scaled low word must be 0 or normal for exactness to be claimed
    let lo_scaled = Big::from_f64(a.lo).mul(&Big::from_f64(fac));
    let claim = is_one || lo_scaled.is_zero() || lo_scaled.abs() >= Big::pow2(-1022);
    if !claim {
        ctx.out_of_domain();
        return;
    }
    for (name, f) in forms.iter() {
        let Some(r) = run_tf(ctx, name, || f()) else { return };
        if !check_valid(ctx, name, r) {
            return;
        }
        check!(ctx, r.big() == exact, "{name}: multiplying {} by {} must be exact, got {}", a.show(), showf(fac), r.show());
    }
    ctx.set_nontrivial(a.lo != 0.0);
}

pub fn c04() -> Property {
    let g = |name, eval, quick, thorough| SubCheck { name, kind: Kind::Generated { words: 40, max_items: 0 }, eval, quick, thorough };
    Property {
        id: "C04",
        rule: "valid operands with hi 0 or in [2^-450,2^450] (low-word classes tie/near-tie/gap/zero; relations incl. equal, negated, neighbouring ulps, powers of two); f64 factors additionally from the small-integer class (2..255, 256..1e5, 0.1, 1e3, 1/3 ...); exact_points: factors ±1 and ±2^k for every |k| <= 450 with operands whose scaled low word sits in [2^-1022, 2^-1018); non-trivial = both operands have a non-zero low word (f64 factor non-zero in mixed forms); distinct = distinct operand bit patterns",
        assumptions: vec![],
        subchecks: vec![
            g("mul_tt", c04_mul_tt, 800_000, 30_000_000),
            g("mul_tf", c04_mul_tf, 500_000, 20_000_000),
            g("mul_ft", c04_mul_ft, 500_000, 20_000_000),
            g("mulassign_tt", c04_mulassign_tt, 500_000, 20_000_000),
            g("mulassign_tf", c04_mulassign_tf, 400_000, 10_000_000),
            g("exact_points", c04_exact_points, 300_000, 10_000_000),
        ],
    }
}

// ------------------------------------------------------------------ C05

#[derive(Clone, Copy, PartialEq)]
enum DForm {
    TT,
    TF,
    FT,
    AssignTT,
    AssignTF,
    Recip,
}

fn nonzero_operand(ctx: &mut Ctx, emin: i64, emax: i64) -> Dd {
    if let Some(c) = maybe_constant(ctx, 40, false) {
        return c;
    }
    dd_closed(ctx, emin, emax, false)
}

fn c05_op(ctx: &mut Ctx, form: DForm) {
    let opname = match form {
        DForm::TT => "a / b",
        DForm::TF => "a / f",
        DForm::FT => "f / b",
        DForm::AssignTT => "a /= b",
        DForm::AssignTF => "a /= f",
        DForm::Recip => "b.recip()",
    };
    // numerator value, divisor value as Big; result
    let (num, den): (Big, Big);
    let r;
    match form {
        DForm::TT | DForm::AssignTT => {
            let b = nonzero_operand(ctx, -450, 450);
            let a = if ctx.chance(1, 30) {
                operand(ctx, -450, 450)
            } else if ctx.chance(1, 4) {
                // quotient-targeted: a = q*b with q one ulp around a power of two / short
                ctx.label("quotient-targeted");
                let q = step(pow2_f64(ctx.range(-20, 20)), ctx.range(-2, 2));
                let t = Dd::of(b.tf() * q);
                if t.valid() && t.hi != 0.0 && exponent(t.hi) >= -450 && exponent(t.hi) < 450 {
                    t
                } else {
                    related(ctx, b, -450, 449)
                }
            } else {
                related(ctx, b, -450, 449)
            };
            let (a, b) = if ctx.chance(1, 6) { aligned_rounding_pair(ctx, -450, 450) } else { (a, b) };
            a.key(ctx);
            b.key(ctx);
            note_dd(ctx, "a", a);
            note_dd(ctx, "b", b);
            num = a.big();
            den = b.big();
            let (ta, tb) = (a.tf(), b.tf());
            let sp = spelling(ctx, a.hi, b.hi, a.lo);
            r = run_tf(ctx, opname, || if form == DForm::TT { spelled!(sp, ta, /, tb) } else { spelled_assign!(sp, ta, /=, tb) });
            ctx.set_nontrivial(a.lo != 0.0 && b.lo != 0.0);
        }
        DForm::TF | DForm::AssignTF => {
            let a = operand(ctx, -450, 450);
            let mut f = if ctx.flag() { f64_related(ctx, a, -450, 449) } else { operand_f64(ctx, a, -450, 450) };
            if f == 0.0 {
                f = 1.0;
            }
            let (a, f) = if ctx.chance(1, 6) { aligned_rounding_tf(ctx, -450, 450) } else { (a, f) };
            a.key(ctx);
            ctx.key_f64(f);
            note_dd(ctx, "a", a);
            note_f(ctx, "f", f);
            num = a.big();
            den = Big::from_f64(f);
            let ta = a.tf();
            let sp = spelling(ctx, a.hi, f, a.lo);
            r = run_tf(ctx, opname, || if form == DForm::TF { spelled!(sp, ta, /, f) } else { spelled_assign!(sp, ta, /=, f) });
            ctx.set_nontrivial(a.lo != 0.0);
        }
        DForm::FT => {
            let b = nonzero_operand(ctx, -450, 450);
            let f = operand_f64(ctx, b, -450, 450);
            b.key(ctx);
            ctx.key_f64(f);
            note_f(ctx, "f", f);
            note_dd(ctx, "b", b);
            num = Big::from_f64(f);
            den = b.big();
            let tb = b.tf();
            let sp = spelling(ctx, b.hi, f, b.lo);
            r = run_tf(ctx, opname, || spelled!(sp, f, /, tb));
            ctx.set_nontrivial(b.lo != 0.0 && f != 0.0);
        }
        DForm::Recip => {
            let b = nonzero_operand(ctx, -450, 450);
            b.key(ctx);
            note_dd(ctx, "b", b);
            num = Big::one();
            den = b.big();
            let tb = b.tf();
            r = run_tf(ctx, opname, || tb.recip());
            ctx.set_nontrivial(b.lo != 0.0);
        }
    }
    let Some(r) = r else { return };
    note_dd(ctx, "result", r);
    if !check_valid(ctx, opname, r) {
        return;
    }
    if num.is_zero() {
        ctx.label("zero-numerator");
        check!(ctx, both_zero(r), "{opname}: zero numerator but quotient = {}", r.show());
        return;
    }
    let beta = match form {
        DForm::TF | DForm::AssignTF => ku2(3),
        _ => ku2(16),
    };
    // |r*den - num| <= beta |num|
    let got = r.big().mul(&den);
    within(ctx, opname, &got, &num, &beta, &num);
}
wrap!(c05_div_tt, |c| c05_op(c, DForm::TT));
wrap!(c05_div_tf, |c| c05_op(c, DForm::TF));
wrap!(c05_div_ft, |c| c05_op(c, DForm::FT));
wrap!(c05_divassign_tt, |c| c05_op(c, DForm::AssignTT));
wrap!(c05_divassign_tf, |c| c05_op(c, DForm::AssignTF));
wrap!(c05_recip, |c| c05_op(c, DForm::Recip));

/// a/a == 1 exactly (words (1,0)), a/+-1 exact, a/2^k exact when lo/2^k does not underflow
fn c05_exact_points(ctx: &mut Ctx) {
    let mut a = nonzero_operand(ctx, -450, 450);
    let which = ctx.below(6);
    let k = if ctx.flag() { ctx.range(-200, 200) } else { ctx.range(-450, 450) };
    let s = if ctx.flag() { -1.0 } else { 1.0 };
    if ctx.chance(1, 4) {
        if let Some(e) = underflow_edge_operand(ctx, k) {
            a = e;
        }
    }
    a.key(ctx);
    ctx.key_u64(which);
    ctx.key_u64(k as u64);
    note_dd(ctx, "a", a);
    let ta = a.tf();
    if which == 0 {
        ctx.label("self-division");
        for (name, r) in [
            ("a / a", run_tf(ctx, "a / a", || ta / ta)),
            ("a /= a", run_tf(ctx, "a /= a", || {
                let mut t = ta;
                t /= ta;
                t
            })),
        ] {
            let Some(r) = r else { return };
            check!(ctx, r.hi == 1.0 && r.lo == 0.0, "{name}: dividing {} by itself gave {} instead of exactly 1", a.show(), r.show());
        }
        ctx.set_nontrivial(a.lo != 0.0);
        return;
    }
    let (d, is_one) = if which < 3 { (s, true) } else { (s * pow2_f64(k), false) };
    note_f(ctx, "divisor", d);
    let exact = a.big().mul(&Big::from_f64(1.0 / d)); // 1/d exact: d is a power of two
    let lo_scaled = Big::from_f64(a.lo).mul(&Big::from_f64(1.0 / d));
    let claim = is_one || lo_scaled.is_zero() || lo_scaled.abs() >= Big::pow2(-1022);
    if !claim {
        ctx.out_of_domain();
        return;
    }
    let forms: [(&str, Box<dyn Fn() -> TwoFloat>); 3] = [
        ("a / f", Box::new(move || ta / d)),
        ("a / TwoFloat(f)", Box::new(move || ta / TwoFloat::from(d))),
        ("a /= f", Box::new(move || {
            let mut t = ta;
            t /= d;
            t
        })),
    ];
    for (name, f) in forms.iter() {
        let Some(r) = run_tf(ctx, name, || f()) else { return };
        if !check_valid(ctx, name, r) {
            return;
        }
        check!(ctx, r.big() == exact, "{name}: dividing {} by {} must be exact, got {}", a.show(), showf(d), r.show());
    }
    ctx.set_nontrivial(a.lo != 0.0);
}

pub fn c05() -> Property {
    let g = |name, eval, quick, thorough| SubCheck { name, kind: Kind::Generated { words: 48, max_items: 0 }, eval, quick, thorough };
    Property {
        id: "C05",
        rule: "valid operands with hi in [2^-450,2^450] (zero numerators included), non-zero divisors with tie/near-tie/gap low words, quotient-targeted pairs (a = q*b with q within 2 ulps of a power of two), equal/negated/neighbouring operands; f64 divisors additionally from the small-integer class; exact_points: divisors ±1, ±2^k for every |k| <= 450 with numerators whose scaled low word sits in [2^-1022, 2^-1018), and a/a; non-trivial = operands with non-zero low words; distinct = distinct operand bit patterns",
        assumptions: vec![],
        subchecks: vec![
            g("div_tt", c05_div_tt, 600_000, 30_000_000),
            g("div_tf", c05_div_tf, 500_000, 20_000_000),
            g("div_ft", c05_div_ft, 500_000, 20_000_000),
            g("divassign_tt", c05_divassign_tt, 400_000, 20_000_000),
            g("divassign_tf", c05_divassign_tf, 400_000, 10_000_000),
            g("recip", c05_recip, 400_000, 10_000_000),
            g("exact_points", c05_exact_points, 300_000, 10_000_000),
        ],
    }
}

// ------------------------------------------------------------------ C19

/// exact trunc / nearest-integer / floor of a/b and the "near an integer" predicate
struct Quot {
    trunc: Big,
    floor: Big,
    ceil: Big,
    near: bool,
    exact_integer: bool,
}
fn quotient(a: &Big, b: &Big) -> Quot {
    let (fl, exact) = a.div_floor(b);
    let one = Big::one();
    let ce = if exact { fl.clone() } else { fl.add(&one) };
    let q_neg = a.sign() * b.sign() < 0;
    let tr = if q_neg { ce.clone() } else { fl.clone() };
    // nearest integer m: the candidate with the smaller |a - m b|
    let d_fl = a.sub(&fl.mul(b)).abs();
    let d_ce = a.sub(&ce.mul(b)).abs();
    let (m, d) = if d_fl <= d_ce { (fl.clone(), d_fl) } else { (ce.clone(), d_ce) };
    // |a/b - m| <= 2^-98 |a/b|  <=>  |a - m b| <= 2^-98 |a|
    let near = !m.is_zero() && d <= a.abs().mul_pow2(-98);
    Quot { trunc: tr, floor: fl, ceil: ce, near, exact_integer: exact }
}

/// operands for % : b first, a placed relative to b
fn rem_pair(ctx: &mut Ctx) -> (Dd, Dd) {
    if ctx.chance(1, 16) {
        // values at the boundaries of the integer types (+-2^7 .. +-2^64, +-1 off) over tiny divisors:
        // where an integer fast path would overflow or lose bits
        ctx.label("operands:integer-type-boundaries");
        let k = [7, 8, 15, 16, 31, 32, 52, 53, 63, 64][ctx.below(10) as usize];
        let v = Big::pow2(k).add(&Big::from_i64(ctx.range(-1, 1)));
        let v = if ctx.flag() { v.neg() } else { v };
        let a = crate::p_conv::dd_from_big(&v);
        let bv = [1.0, 2.0, 3.0, 5.0][ctx.below(4) as usize] * if ctx.flag() { -1.0 } else { 1.0 };
        return (a, Dd::new(bv, 0.0));
    }
    if ctx.chance(1, 8) {
        // integer-valued operands beyond 2^53: a = m * 2^s (up to 2^89), b a small integer
        ctx.label("operands:large-integers");
        let bb = ctx.range(1, 30) as u32;
        let bv = ((ctx.word() >> (64 - bb)) | 1) as f64;
        let b = Dd::new(if ctx.flag() { -bv } else { bv }, 0.0);
        let mb = ctx.range(1, 53) as u32;
        let m = ((ctx.word() >> (64 - mb)) | (1u64 << (mb - 1))) as f64;
        let sft = ctx.range(0, 36);
        let hi = m * pow2_f64(sft) * if ctx.flag() { -1.0 } else { 1.0 };
        let a = if ctx.chance(1, 3) {
            let d = dd_at(ctx, hi);
            let lo = d.lo.trunc();
            if hi + lo == hi {
                Dd::new(hi, lo)
            } else {
                Dd::new(hi, 0.0)
            }
        } else {
            Dd::new(hi, 0.0)
        };
        return (a, b);
    }
    let b = dd_exp(ctx, -400, 399, false);
    let c = ctx.weighted(&[5, 4, 4, 3, 2, 2]);
    let in_range = |d: Dd| d.valid() && d.hi != 0.0 && exponent(d.hi) >= -400 && exponent(d.hi) < 400;
    let a = match c {
        0 => {
            // independent, exponent of a relative to b in [-20, 88]
            let e = (exponent(b.hi) + ctx.range(-20, 88)).clamp(-400, 399);
            let m = mantissa(ctx);
            let hi = f64::from_bits(((ctx.flag() as u64) << 63) | (((e + 1023) as u64) << 52) | m);
            dd_at(ctx, hi)
        }
        1 => {
            // a = k*b (nearest double-double): exact or within rounding of an integer quotient
            ctx.label("quotient:integer");
            let kb = ctx.range(1, 60) as u32;
            let k = (ctx.word() >> (64 - kb)).max(1);
            let v = b.big().mul(&Big::from_u64(k));
            let v = if ctx.flag() { v.neg() } else { v };
            crate::p_conv::dd_from_big(&v)
        }
        2 => {
            // a = k*b +- tiny
            ctx.label("quotient:integer+-tiny");
            let kb = ctx.range(1, 50) as u32;
            let k = (ctx.word() >> (64 - kb)).max(1);
            let t = ctx.range(40, 130);
            let v = b.big().mul(&Big::from_u64(k));
            let tiny = v.abs().mul_pow2(-t);
            let v = if ctx.flag() { v.add(&tiny) } else { v.sub(&tiny) };
            let v = if ctx.flag() { v.neg() } else { v };
            crate::p_conv::dd_from_big(&v)
        }
        5 => {
            // the top of the stated quotient range (|a/b| <= 2^90) and the widths at which an
            // integer stops fitting a word: q = 2^m - d + frac, d of every bit length up to 40
            ctx.label("quotient:range-edge");
            let m = [90, 90, 90, 89, 64, 63, 53, 52][ctx.below(8) as usize];
            let db = ctx.range(0, 40) as u32;
            let d = if db == 0 { 0 } else { (ctx.word() >> (64 - db)) | (1u64 << (db - 1)) };
            let frac = match ctx.below(4) {
                0 => Big::zero(),
                1 => Big::pow2(-1),
                2 => Big::from_f64((ctx.bits(20) as f64 + 1.0) / 2097152.0),
                _ => Big::pow2(-(ctx.range(2, 14))),
            };
            // strictly inside the range: q <= 2^m - d - 1 + frac < 2^m
            let q = Big::pow2(m).sub(&Big::from_u64(d + 1)).add(&frac);
            let v = b.big().mul(&q);
            let v = if ctx.flag() { v.neg() } else { v };
            crate::p_conv::dd_from_big(&v)
        }
        3 => {
            ctx.label("quotient:below-one");
            let e = (exponent(b.hi) - ctx.range(0, 30)).clamp(-400, 399);
            let m = mantissa(ctx);
            let hi = f64::from_bits(((ctx.flag() as u64) << 63) | (((e + 1023) as u64) << 52) | m);
            dd_at(ctx, hi)
        }
        _ => related(ctx, b, -400, 399),
    };
    let a = if in_range(a) { a } else { dd_exp(ctx, -400, 399, false) };
    (a, b)
}

#[derive(Clone, Copy, PartialEq)]
enum RForm {
    TT,
    TF,
    FT,
    AssignTT,
    AssignTF,
    DivEuclid,
    RemEuclid,
}

fn c19_op(ctx: &mut Ctx, form: RForm) {
    let (mut a, mut b) = rem_pair(ctx);
    match form {
        RForm::TF | RForm::AssignTF => b = Dd::new(b.hi, 0.0),
        RForm::FT => a = Dd::new(a.hi, 0.0),
        _ => {}
    }
    a.key(ctx);
    b.key(ctx);
    note_dd(ctx, "a", a);
    note_dd(ctx, "b", b);
    let (va, vb) = (a.big(), b.big());
    // |a/b| <= 2^90
    if va.abs() > vb.abs().mul_pow2(90) {
        ctx.out_of_domain();
        return;
    }
    let (ta, tb) = (a.tf(), b.tf());
    let name = match form {
        RForm::TT => "a % b",
        RForm::TF => "a % f",
        RForm::FT => "f % b",
        RForm::AssignTT => "a %= b",
        RForm::AssignTF => "a %= f",
        RForm::DivEuclid => "a.div_euclid(b)",
        RForm::RemEuclid => "a.rem_euclid(b)",
    };
    let sp = spelling(ctx, a.hi, b.hi, a.lo + b.lo);
    let (fa, fb) = (a.hi, b.hi);
    let r = run_tf(ctx, name, || match form {
        RForm::TT => spelled!(sp, ta, %, tb),
        RForm::TF => spelled!(sp, ta, %, fb),
        RForm::FT => spelled!(sp, fa, %, tb),
        RForm::AssignTT => spelled_assign!(sp, ta, %=, tb),
        RForm::AssignTF => spelled_assign!(sp, ta, %=, fb),
        RForm::DivEuclid => crate::inh::div_euclid(ta, tb),
        RForm::RemEuclid => crate::inh::rem_euclid(ta, tb),
    });
    let Some(r) = r else { return };
    note_dd(ctx, "result", r);
    if !check_valid(ctx, name, r) {
        return;
    }
    let q = quotient(&va, &vb);
    if q.near {
        ctx.label("near-integer-quotient");
    }
    let one = Big::one();
    let tol_scale = va.abs().max(vb.abs());
    let beta = ku2(16);
    let euclid = if vb.sign() > 0 { q.floor.clone() } else { q.ceil.clone() };
    let got = r.big();
    match form {
        RForm::DivEuclid => {
            let ok = got == euclid || (q.near && (got == euclid.add(&one) || got == euclid.sub(&one)));
            check!(ctx, ok, "div_euclid({}, {}) = {} but the Euclidean quotient is {:e} (near-integer: {})", a.show(), b.show(), r.show(), euclid.approx(), q.near);
        }
        _ => {
            let k0 = if form == RForm::RemEuclid { euclid.clone() } else { q.trunc.clone() };
            let mut ks = vec![k0.clone()];
            if q.near {
                ks.push(k0.add(&one));
                ks.push(k0.sub(&one));
            }
            let bound = beta.mul(&tol_scale);
            let mut best: Option<Big> = None;
            for k in &ks {
                let want = va.sub(&k.mul(&vb));
                let err = got.sub(&want).abs();
                if best.as_ref().map_or(true, |b| err < *b) {
                    best = Some(err);
                }
            }
            let err = best.unwrap();
            if !err.is_zero() {
                ctx.ratio_log2(err.log2_abs() - bound.log2_abs());
            }
            check!(ctx, err <= bound, "{name}: result {} is 2^{:.1} x max(|a|,|b|) away from a - k*b for every admissible k (k0 ~{:e}, near-integer: {}); a = {}, b = {}", r.show(), err.log2_abs() - tol_scale.log2_abs(), k0.approx(), q.near, a.show(), b.show());
            if form == RForm::RemEuclid {
                // "rem_euclid returns a - div_euclid*b": the pair must be consistent with EACH OTHER,
                // whichever admissible integer div_euclid chose
                if let Some(d) = run_tf(ctx, "a.div_euclid(b)", || crate::inh::div_euclid(ta, tb)) {
                    if d.valid() {
                        let want = va.sub(&d.big().mul(&vb));
                        let e2 = got.sub(&want).abs();
                        check!(ctx, e2 <= bound, "rem_euclid({}, {}) = {} is not a - div_euclid*b with div_euclid = {} (off by 2^{:.1} x max(|a|,|b|))", a.show(), b.show(), r.show(), d.show(), e2.log2_abs() - tol_scale.log2_abs());
                    }
                }
            }
        }
    }
    let qa = va.abs() > vb.abs();
    ctx.set_nontrivial((qa && !q.exact_integer) || q.near);
}
wrap!(c19_rem_tt, |c| c19_op(c, RForm::TT));
wrap!(c19_rem_tf, |c| c19_op(c, RForm::TF));
wrap!(c19_rem_ft, |c| c19_op(c, RForm::FT));
wrap!(c19_remassign_tt, |c| c19_op(c, RForm::AssignTT));
wrap!(c19_remassign_tf, |c| c19_op(c, RForm::AssignTF));
wrap!(c19_div_euclid, |c| c19_op(c, RForm::DivEuclid));
wrap!(c19_rem_euclid, |c| c19_op(c, RForm::RemEuclid));

/// integer operands below 2^53: all three are exact
fn c19_integers(ctx: &mut Ctx) {
    let int = |ctx: &mut Ctx| -> f64 {
        let bits = ctx.range(1, 53) as u32;
        let v = (ctx.word() >> (64 - bits)).max(1) as f64;
        if ctx.flag() {
            -v
        } else {
            v
        }
    };
    let b = int(ctx);
    let a = match ctx.weighted(&[4, 3, 1]) {
        0 => int(ctx),
        1 => {
            ctx.label("quotient:integer");
            let k = ctx.range(1, 1 << 20) as f64;
            let v = k * b;
            if v.abs() < 9007199254740992.0 {
                v
            } else {
                b
            }
        }
        _ => 0.0,
    };
    ctx.key_f64(a);
    ctx.key_f64(b);
    note_f(ctx, "a", a);
    note_f(ctx, "b", b);
    let (va, vb) = (Big::from_f64(a), Big::from_f64(b));
    let q = quotient(&va, &vb);
    let (ta, tb) = (TwoFloat::from(a), TwoFloat::from(b));
    let euclid = if b > 0.0 { q.floor.clone() } else { q.ceil.clone() };
    let want_rem = va.sub(&q.trunc.mul(&vb));
    let want_rem_e = va.sub(&euclid.mul(&vb));
    let forms: [(&str, Box<dyn Fn() -> TwoFloat>, &Big); 7] = [
        ("a % b", Box::new(move || ta % tb), &want_rem),
        ("a % f", Box::new(move || ta % b), &want_rem),
        ("f % b", Box::new(move || a % tb), &want_rem),
        ("a %= b", Box::new(move || {
            let mut t = ta;
            t %= tb;
            t
        }), &want_rem),
        ("a %= f", Box::new(move || {
            let mut t = ta;
            t %= b;
            t
        }), &want_rem),
        ("div_euclid", Box::new(move || crate::inh::div_euclid(ta, tb)), &euclid),
        ("rem_euclid", Box::new(move || crate::inh::rem_euclid(ta, tb)), &want_rem_e),
    ];
    for (name, f, want) in forms.iter() {
        let Some(r) = run_tf(ctx, name, || f()) else { return };
        if !check_valid(ctx, name, r) {
            return;
        }
        check!(ctx, r.big() == **want, "{name} on integers a = {}, b = {}: got {} but the exact result is {:e}", a, b, r.show(), want.approx());
    }
    ctx.set_nontrivial(a.abs() > b.abs());
}

pub fn c19() -> Property {
    let g = |name, eval, quick, thorough| SubCheck { name, kind: Kind::Generated { words: 48, max_items: 0 }, eval, quick, thorough };
    Property {
        id: "C19",
        rule: "valid pairs with hi in [2^-400,2^400], |a/b| <= 2^90 by construction (exponent of a chosen relative to b): independent, a = k*b rounded to the nearest double-double (k up to 2^60), a = k*b ± 2^-t (t 40..130), |a| < |b|, equal/negated/neighbouring operands, all four sign combinations, f64 on either side; integer pairs below 2^53. Oracle: exact rational quotient (floor by integer division of the dyadic operands). non-trivial = |a| > |b| with a non-integer quotient, or a near-integer quotient; distinct = distinct operand bit patterns",
        assumptions: vec![],
        subchecks: vec![
            g("rem_tt", c19_rem_tt, 400_000, 15_000_000),
            g("rem_tf", c19_rem_tf, 300_000, 10_000_000),
            g("rem_ft", c19_rem_ft, 300_000, 10_000_000),
            g("remassign_tt", c19_remassign_tt, 300_000, 10_000_000),
            g("remassign_tf", c19_remassign_tf, 300_000, 10_000_000),
            g("div_euclid", c19_div_euclid, 400_000, 15_000_000),
            g("rem_euclid", c19_rem_euclid, 400_000, 15_000_000),
            g("integers", c19_integers, 400_000, 15_000_000),
        ],
    }
}
