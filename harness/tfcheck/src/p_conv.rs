//! C09: integer and float conversions

use crate::check;
use crate::common::*;
use crate::engine::{guard, Ctx, Kind, Property, SubCheck};
use crate::gen::*;
use crate::p_base::nonfinite_pool;
use num_traits::{FromPrimitive, ToPrimitive};
use oracle::Big;
use std::convert::TryFrom;
use twofloat::TwoFloat;

/// nearest double-double of an exact value (hi = RN(v), lo = RN(v - hi)); always valid
pub fn dd_from_big(v: &Big) -> Dd {
    let hi = v.to_f64_rn();
    if !hi.is_finite() {
        return Dd::new(hi, 0.0);
    }
    let lo = v.sub(&Big::from_f64(hi)).to_f64_rn();
    // lo may have rounded up to exactly half an ulp of an odd hi: renormalise (Fast2Sum, exact here)
    let s = hi + lo;
    let d = if s.is_finite() { Dd::new(s, lo - (s - hi)) } else { Dd::new(hi, lo) };
    assert!(d.valid(), "dd_from_big produced an invalid pair {:?} from {:?}", d, v);
    d
}

#[derive(Clone, Copy, Debug, PartialEq)]
enum IT {
    I8,
    U8,
    I16,
    U16,
    I32,
    U32,
    I64,
    U64,
    I128,
    U128,
}
const WIDE: [IT; 6] = [IT::I32, IT::U32, IT::I64, IT::U64, IT::I128, IT::U128];
const ALLT: [IT; 10] = [IT::I8, IT::U8, IT::I16, IT::U16, IT::I32, IT::U32, IT::I64, IT::U64, IT::I128, IT::U128];

impl IT {
    fn bits(self) -> u32 {
        match self {
            IT::I8 | IT::U8 => 8,
            IT::I16 | IT::U16 => 16,
            IT::I32 | IT::U32 => 32,
            IT::I64 | IT::U64 => 64,
            IT::I128 | IT::U128 => 128,
        }
    }
    fn signed(self) -> bool {
        matches!(self, IT::I8 | IT::I16 | IT::I32 | IT::I64 | IT::I128)
    }
    fn name(self) -> &'static str {
        match self {
            IT::I8 => "i8",
            IT::U8 => "u8",
            IT::I16 => "i16",
            IT::U16 => "u16",
            IT::I32 => "i32",
            IT::U32 => "u32",
            IT::I64 => "i64",
            IT::U64 => "u64",
            IT::I128 => "i128",
            IT::U128 => "u128",
        }
    }
    fn min(self) -> Big {
        if self.signed() {
            Big::pow2(self.bits() as i64 - 1).neg()
        } else {
            Big::zero()
        }
    }
    fn max(self) -> Big {
        let b = if self.signed() { self.bits() - 1 } else { self.bits() };
        Big::pow2(b as i64).sub(&Big::one())
    }
}

/// an integer value of type `t` as an exact Big (always inside the type's range)
fn int_value(ctx: &mut Ctx, t: IT) -> Big {
    let c = ctx.weighted(&[3, 3, 4, 4, 2, 3]);
    let one = Big::one();
    let clampv = |v: Big| -> Big {
        if v < t.min() {
            t.min()
        } else if v > t.max() {
            t.max()
        } else {
            v
        }
    };
    let nbits = if t.signed() { t.bits() - 1 } else { t.bits() };
    let v = match c {
        0 => {
            ctx.label("int:boundary");
            let base = match ctx.below(4) {
                0 => t.min(),
                1 => t.max(),
                2 => Big::zero(),
                _ => {
                    if t.signed() {
                        one.neg()
                    } else {
                        one.clone()
                    }
                }
            };
            let d = Big::from_i64(ctx.range(-3, 3));
            base.add(&d)
        }
        1 => {
            ctx.label("int:pow2");
            let k = ctx.range(0, nbits as i64);
            let d = Big::from_i64(ctx.range(-1, 1));
            let v = Big::pow2(k).add(&d);
            if t.signed() && ctx.flag() {
                v.neg()
            } else {
                v
            }
        }
        2 => {
            // random bit length
            let len = ctx.range(1, nbits as i64) as u32;
            let hi = ctx.word() as u128;
            let lo = ctx.word() as u128;
            let raw = (hi << 64) | lo;
            let v = if len >= 128 { raw } else { raw >> (128 - len) };
            let v = Big::from_u128(v);
            if t.signed() && ctx.flag() {
                v.neg()
            } else {
                v
            }
        }
        3 => {
            // tie family: m * 2^k + (2^(k-1) - delta): remainder next to half an ulp of the f64 image
            ctx.label("int:tie-family");
            if nbits < 56 {
                Big::from_u64(ctx.word() >> (64 - nbits.min(63)))
            } else {
                let k = ctx.range(1, nbits as i64 - 53);
                let m = (1u64 << 52) | ctx.bits(52);
                let m = if ctx.flag() { m | 1 } else { m & !1 };
                let delta = match ctx.below(5) {
                    0 => 0,
                    1 => 1,
                    2 => -1,
                    3 => ctx.range(-8, 8),
                    _ => ctx.range(-1000, 1000),
                };
                let v = Big::from_u64(m).mul_pow2(k).add(&Big::pow2(k - 1)).sub(&Big::from_i64(delta));
                if t.signed() && ctx.flag() {
                    v.neg()
                } else {
                    v
                }
            }
        }
        5 => {
            // boundary -+ d with d of every bit length (MAX - 2^70, MIN + 2^40 + 1, 2^k - d ...)
            ctx.label("int:boundary-distance");
            let which = ctx.below(4);
            let base = match which {
                0 => t.max(),
                1 => t.min(),
                2 => Big::pow2(ctx.range(1, nbits as i64)),
                _ => Big::pow2(ctx.range(1, nbits as i64)).neg(),
            };
            let len = ctx.range(1, nbits as i64) as u32;
            let raw = ((ctx.word() as u128) << 64) | ctx.word() as u128;
            let d = match ctx.below(3) {
                0 => Big::pow2(len as i64 - 1),
                1 => Big::pow2(len as i64 - 1).add(&Big::from_i64(ctx.range(-2, 2))),
                _ => Big::from_u128((raw >> (128 - len.min(128))) | (1u128 << (len - 1))),
            };
            let inward = ctx.flag();
            match which {
                0 => base.sub(&d),
                1 if t.signed() => base.add(&d),
                _ => {
                    if inward {
                        base.sub(&d)
                    } else {
                        base.add(&d)
                    }
                }
            }
        }
        _ => {
            // sparse: few set bits far apart
            ctx.label("int:sparse");
            let mut v = Big::zero();
            for _ in 0..ctx.range(1, 4) {
                v = v.add(&Big::pow2(ctx.range(0, nbits as i64 - 1)));
            }
            if t.signed() && ctx.flag() {
                v.neg()
            } else {
                v
            }
        }
    };
    clampv(v)
}

macro_rules! with_int {
    ($t:expr, $v:expr, $f:ident) => {
        match $t {
            IT::I8 => $f::<i8>($v.to_i128().unwrap() as i8),
            IT::U8 => $f::<u8>($v.to_i128().unwrap() as u8),
            IT::I16 => $f::<i16>($v.to_i128().unwrap() as i16),
            IT::U16 => $f::<u16>($v.to_i128().unwrap() as u16),
            IT::I32 => $f::<i32>($v.to_i128().unwrap() as i32),
            IT::U32 => $f::<u32>($v.to_i128().unwrap() as u32),
            IT::I64 => $f::<i64>($v.to_i128().unwrap() as i64),
            IT::U64 => $f::<u64>($v.to_u128().unwrap() as u64),
            IT::I128 => $f::<i128>($v.to_i128().unwrap()),
            IT::U128 => $f::<u128>($v.to_u128().unwrap()),
        }
    };
}

trait IntLike: Copy + std::fmt::Debug + PartialEq + ToPrimitive + 'static {
    fn to_tf(self) -> TwoFloat;
    fn from_prim(self) -> Option<TwoFloat>;
    fn try_back(x: TwoFloat) -> Result<Self, ()>;
    fn try_back_ref(x: &TwoFloat) -> Result<Self, ()>;
    fn to_prim(x: &TwoFloat) -> Option<Self>;
    fn numcast(x: TwoFloat) -> Option<Self>;
    fn as_big(self) -> Big;
}
macro_rules! intlike {
    ($t:ty, $from:ident, $to:ident, $big:expr) => {
        impl IntLike for $t {
            fn to_tf(self) -> TwoFloat {
                TwoFloat::from(self)
            }
            fn from_prim(self) -> Option<TwoFloat> {
                <TwoFloat as FromPrimitive>::$from(self)
            }
            fn try_back(x: TwoFloat) -> Result<Self, ()> {
                <$t>::try_from(x).map_err(|_| ())
            }
            fn try_back_ref(x: &TwoFloat) -> Result<Self, ()> {
                <$t>::try_from(x).map_err(|_| ())
            }
            fn to_prim(x: &TwoFloat) -> Option<Self> {
                ToPrimitive::$to(x)
            }
            fn numcast(x: TwoFloat) -> Option<Self> {
                <$t as num_traits::NumCast>::from(x)
            }
            fn as_big(self) -> Big {
                $big(self)
            }
        }
    };
}
intlike!(i8, from_i8, to_i8, |x| Big::from_i64(x as i64));
intlike!(u8, from_u8, to_u8, |x| Big::from_u64(x as u64));
intlike!(i16, from_i16, to_i16, |x| Big::from_i64(x as i64));
intlike!(u16, from_u16, to_u16, |x| Big::from_u64(x as u64));
intlike!(i32, from_i32, to_i32, |x| Big::from_i64(x as i64));
intlike!(u32, from_u32, to_u32, |x| Big::from_u64(x as u64));
intlike!(i64, from_i64, to_i64, |x| Big::from_i64(x));
intlike!(u64, from_u64, to_u64, |x| Big::from_u64(x));
intlike!(i128, from_i128, to_i128, |x| Big::from_i128(x));
intlike!(u128, from_u128, to_u128, |x| Big::from_u128(x));

struct FromOut {
    from: Dd,
    from_prim: Option<Dd>,
    numcast: Option<Dd>,
    back: Result<Big, ()>,
    n: Big,
}

fn do_from<T: IntLike>(n: T) -> Result<FromOut, String> {
    guard(|| {
        let t = n.to_tf();
        FromOut {
            from: Dd::of(t),
            from_prim: n.from_prim().map(Dd::of),
            numcast: <TwoFloat as num_traits::NumCast>::from(n).map(Dd::of),
            back: T::try_back(t).map(|v| v.as_big()),
            n: n.as_big(),
        }
    })
}

fn check_from(ctx: &mut Ctx, t: IT, v: &Big) {
    let out = with_int!(t, v, do_from);
    let o = match out {
        Ok(o) => o,
        Err(m) => {
            ctx.fail(format!("From<{}> panicked: {m}", t.name()));
            return;
        }
    };
    assert!(o.n == *v);
    let tn = t.name();
    ctx.note("n", || format!("{} as {}", v.to_i128().map(|x| x.to_string()).or(v.to_u128().map(|x| x.to_string())).unwrap_or_default(), tn));
    note_dd(ctx, "from", o.from);
    let r = o.from;
    if !r.valid() {
        ctx.fail(format!("TwoFloat::from({}{}) = {} is not a valid double-double", v.approx(), tn, r.show()));
        return;
    }
    let exact_claim = t.bits() <= 64 || v.sig_bits() <= 106;
    if exact_claim {
        check!(ctx, r.big() == *v, "TwoFloat::from(n: {tn}) = {} does not have the exact value n ~{:e}", r.show(), v.approx());
        check!(ctx, o.back.as_ref().ok() == Some(v), "{tn}::try_from(TwoFloat::from(n)) did not return Ok(n) for n ~{:e}: got {:?}", v.approx(), o.back.as_ref().map(|b| b.approx()));
    } else {
        within(ctx, "From<128-bit>", &r.big(), v, &Big::pow2(-106), v);
    }
    match o.from_prim {
        Some(fp) => check!(ctx, same_dd(fp, r), "FromPrimitive::from_{tn}(n) = {} differs from From = {}", fp.show(), r.show()),
        None => ctx.fail(format!("FromPrimitive::from_{tn} returned None")),
    }
    match o.numcast {
        Some(nc) => {
            check!(ctx, nc.valid(), "<TwoFloat as NumCast>::from(n: {tn}) = {} not valid", nc.show());
            if nc.valid() {
                check!(ctx, nc.big() == r.big(), "<TwoFloat as NumCast>::from(n: {tn}) = {} has a different value from TwoFloat::from(n) = {} (n ~{:e})", nc.show(), r.show(), v.approx());
            }
        }
        None => ctx.fail(format!("<TwoFloat as NumCast>::from(n: {tn}) returned None")),
    }
    // NumCast::from is generic over ANY `T: ToPrimitive`: a user-defined source that implements only the
    // two required methods (its provided to_i128 / to_u128 go through to_i64 / to_u64) must convert exactly too
    if t == IT::U64 || t == IT::I64 {
        struct Ticks(i128);
        impl ToPrimitive for Ticks {
            fn to_i64(&self) -> Option<i64> {
                i64::try_from(self.0).ok()
            }
            fn to_u64(&self) -> Option<u64> {
                u64::try_from(self.0).ok()
            }
        }
        let n = v.to_i128().unwrap();
        let via = guard(|| <TwoFloat as num_traits::NumCast>::from(Ticks(n))).ok().flatten().map(Dd::of);
        check!(ctx, via.map(|d| d.valid() && d.big() == r.big()) == Some(true), "<TwoFloat as NumCast>::from(user-defined ToPrimitive source holding {n}) = {:?} but TwoFloat::from(n) = {}", via.map(|d| d.show()), r.show());
        // the SIZE of the source type says nothing about the size of its value: a zero-sized and a
        // 4-byte handle to a value kept elsewhere, and a 48-byte record
        thread_local! { static CUR: std::cell::Cell<i128> = const { std::cell::Cell::new(0) }; }
        struct Current;
        struct Handle(#[allow(dead_code)] u32);
        struct Record([i128; 3]);
        macro_rules! reads { ($t:ty, $get:expr) => {
            impl ToPrimitive for $t {
                fn to_i64(&self) -> Option<i64> { i64::try_from($get(self)).ok() }
                fn to_u64(&self) -> Option<u64> { u64::try_from($get(self)).ok() }
            }
        }; }
        reads!(Current, |_s: &Current| CUR.with(|c| c.get()));
        reads!(Handle, |_s: &Handle| CUR.with(|c| c.get()));
        reads!(Record, |s: &Record| s.0[1]);
        CUR.with(|c| c.set(n));
        for (what, via) in [
            ("zero-sized", guard(|| <TwoFloat as num_traits::NumCast>::from(Current)).ok().flatten().map(Dd::of)),
            ("4-byte", guard(|| <TwoFloat as num_traits::NumCast>::from(Handle(7))).ok().flatten().map(Dd::of)),
            ("48-byte", guard(|| <TwoFloat as num_traits::NumCast>::from(Record([0, n, -1]))).ok().flatten().map(Dd::of)),
        ] {
            check!(ctx, via.map(|d| d.valid() && d.big() == r.big()) == Some(true), "<TwoFloat as NumCast>::from({what} user-defined ToPrimitive source holding {n}) = {:?} but TwoFloat::from(n) = {}", via.map(|d| d.show()), r.show());
        }
    }
    // the pointer-sized routes follow the 64-bit ones on this host
    if t == IT::U64 {
        let n = v.to_u128().unwrap() as u64;
        let us = guard(|| <TwoFloat as FromPrimitive>::from_usize(n as usize)).ok().flatten().map(Dd::of);
        check!(ctx, us.map(|d| same_dd(d, r)) == Some(true), "FromPrimitive::from_usize({n}) = {:?} differs from TwoFloat::from(n as u64) = {}", us.map(|d| d.show()), r.show());
    }
    if t == IT::I64 {
        let n = v.to_i128().unwrap() as i64;
        let is = guard(|| <TwoFloat as FromPrimitive>::from_isize(n as isize)).ok().flatten().map(Dd::of);
        check!(ctx, is.map(|d| same_dd(d, r)) == Some(true), "FromPrimitive::from_isize({n}) = {:?} differs from TwoFloat::from(n as i64) = {}", is.map(|d| d.show()), r.show());
    }
    ctx.set_nontrivial(r.lo != 0.0 || t.bits() <= 32);
}

fn c09_from_small(ctx: &mut Ctx) {
    let i = ctx.word();
    ctx.key_u64(i);
    let (t, v) = if i < 256 {
        (IT::I8, Big::from_i64(i as i64 - 128))
    } else if i < 512 {
        (IT::U8, Big::from_u64(i - 256))
    } else if i < 512 + 65536 {
        (IT::I16, Big::from_i64((i - 512) as i64 - 32768))
    } else {
        (IT::U16, Big::from_u64(i - 512 - 65536))
    };
    check_from(ctx, t, &v);
    // and the way back through every route
    let x = dd_from_big(&v);
    for tt in ALLT {
        check_try(ctx, tt, x);
    }
}

fn c09_from_wide(ctx: &mut Ctx) {
    let t = WIDE[ctx.below(6) as usize];
    let v = int_value(ctx, t);
    ctx.key_u64(t.bits() as u64 * 2 + t.signed() as u64);
    let d = dd_from_big(&v.round_to(106));
    d.key(ctx);
    ctx.key_u64(v.to_f64_rn().to_bits() ^ v.sig_bits());
    check_from(ctx, t, &v);
}

struct TryOut {
    a: Result<Big, ()>,
    b: Result<Big, ()>,
    c: Option<Big>,
    d: Option<Big>,
}
fn do_try<T: IntLike>(x: TwoFloat) -> Result<TryOut, String> {
    guard(|| TryOut {
        a: T::try_back(x).map(|v| v.as_big()),
        b: T::try_back_ref(&x).map(|v| v.as_big()),
        c: T::to_prim(&x).map(|v| v.as_big()),
        d: T::numcast(x).map(|v| v.as_big()),
    })
}

fn check_try(ctx: &mut Ctx, t: IT, x: Dd) {
    let tx = x.tf();
    let out = match t {
        IT::I8 => do_try::<i8>(tx),
        IT::U8 => do_try::<u8>(tx),
        IT::I16 => do_try::<i16>(tx),
        IT::U16 => do_try::<u16>(tx),
        IT::I32 => do_try::<i32>(tx),
        IT::U32 => do_try::<u32>(tx),
        IT::I64 => do_try::<i64>(tx),
        IT::U64 => do_try::<u64>(tx),
        IT::I128 => do_try::<i128>(tx),
        IT::U128 => do_try::<u128>(tx),
    };
    let tn = t.name();
    let o = match out {
        Ok(o) => o,
        Err(m) => {
            ctx.fail(format!("{tn}::try_from({}) panicked: {m}", x.show()));
            return;
        }
    };
    let want: Option<Big> = if x.valid() {
        let tr = x.big().trunc();
        if tr >= t.min() && tr <= t.max() {
            Some(tr)
        } else {
            None
        }
    } else {
        None
    };
    let show = |r: &Option<Big>| r.as_ref().map(|b| format!("{:e}", b.approx())).unwrap_or("Err/None".into());
    let a = o.a.ok();
    let b = o.b.ok();
    check!(ctx, a == want, "{tn}::try_from({}) = {} but trunc(hi+lo) gives {}", x.show(), show(&a), show(&want));
    check!(ctx, b == want, "{tn}::try_from(&{}) = {} but trunc(hi+lo) gives {}", x.show(), show(&b), show(&want));
    check!(ctx, o.c == want, "ToPrimitive::to_{tn}({}) = {} but expected {}", x.show(), show(&o.c), show(&want));
    check!(ctx, o.d == want, "<{tn} as NumCast>::from({}) = {} but expected {}", x.show(), show(&o.d), show(&want));
}

/// valid x = B + d around the interesting points of T's range
fn x_for_type(ctx: &mut Ctx, t: IT) -> Dd {
    let c = ctx.weighted(&[10, 2, 1, 1]);
    if c == 1 {
        return dd_all(ctx);
    }
    if c == 2 {
        ctx.label("x:far-out-of-range");
        return dd_exp(ctx, t.bits() as i64, 1023, false);
    }
    if c == 3 {
        ctx.label("x:small");
        return dd_exp(ctx, -70, 8, true);
    }
    let one = Big::one();
    let base = match ctx.below(8) {
        0 => t.min(),
        1 => t.max(),
        2 => t.max().add(&one),
        3 => Big::zero(),
        4 => one.neg(),
        5 => t.min().sub(&one),
        _ => int_value(ctx, t),
    };
    let dc = ctx.weighted(&[2, 3, 3, 3, 3, 2]);
    let s = if ctx.flag() { -1i64 } else { 1 };
    let d = match dc {
        0 => Big::zero(),
        1 => Big::from_i64(s),
        2 => Big::from_i64(s).mul_pow2(-1),
        3 => {
            // +-(1 - eps)
            let k = ctx.range(1, 60);
            Big::from_i64(s).sub(&Big::from_i64(s).mul_pow2(-k))
        }
        4 => {
            // +- tiny: lives in the low word
            let k = ctx.range(1, 100);
            Big::from_i64(s).mul_pow2(-k)
        }
        _ => Big::from_i64(s).mul_pow2(ctx.range(0, 70)),
    };
    // keep what fits in 106 bits (nearest double-double of base + d)
    dd_from_big(&base.add(&d))
}

fn c09_try(ctx: &mut Ctx) {
    let t = ALLT[ctx.below(10) as usize];
    let x = if ctx.chance(1, 25) {
        ctx.label("x:non-finite");
        let pool = nonfinite_pool();
        pool[ctx.below(pool.len() as u64) as usize].1
    } else {
        x_for_type(ctx, t)
    };
    ctx.key_u64(t.bits() as u64 * 2 + t.signed() as u64);
    x.key(ctx);
    ctx.note("type", || t.name().to_string());
    note_dd(ctx, "x", x);
    check_try(ctx, t, x);
    // isize/usize routes follow the 64-bit ones on this host
    if t == IT::I64 {
        let r = guard(|| x.tf().to_isize().map(|v| v as i64));
        let w = guard(|| x.tf().to_i64());
        check!(ctx, r == w, "to_isize({}) = {:?} differs from to_i64 = {:?}", x.show(), r, w);
    }
    if t == IT::U64 {
        let r = guard(|| x.tf().to_usize().map(|v| v as u64));
        let w = guard(|| x.tf().to_u64());
        check!(ctx, r == w, "to_usize({}) = {:?} differs from to_u64 = {:?}", x.show(), r, w);
    }
    if x.valid() {
        let tr = x.big().trunc();
        let d_lo = tr.sub(&t.min()).abs();
        let d_hi = tr.sub(&t.max()).abs();
        let two = Big::from_u64(2);
        ctx.set_nontrivial(d_lo <= two || d_hi <= two || (x.lo != 0.0 && tr.abs() <= two));
    } else {
        ctx.set_nontrivial(true);
    }
}

fn c09_floats(ctx: &mut Ctx) {
    let x = match ctx.weighted(&[1, 5, 4]) {
        0 => {
            let pool = nonfinite_pool();
            pool[ctx.below(pool.len() as u64) as usize].1
        }
        1 => dd_all(ctx),
        _ => {
            // high word placed relative to the f32 grid: exactly representable, exactly at a
            // midpoint between two f32 values (a tie of the f64 -> f32 rounding), one f64 ulp
            // around such a midpoint; across the f32 normal, subnormal and overflow ranges
            ctx.label("hi:f32-grid");
            let e = match ctx.weighted(&[6, 2, 2]) {
                0 => ctx.range(-126, 127),
                1 => ctx.range(-150, -127),
                _ => ctx.range(126, 129),
            };
            let m23 = ctx.bits(23);
            let base = f64::from_bits((((e + 1023) as u64) << 52) | (m23 << 29));
            // half an f32 ulp at this exponent (f32 subnormals: fixed spacing 2^-149)
            let half = if e >= -126 { oracle::big::pow2_f64(e - 24) } else { oracle::big::pow2_f64(-150) };
            let hi = match ctx.below(5) {
                0 => base,
                1 => base + half,
                2 => next_up(base + half),
                3 => next_down(base + half),
                _ => base + half * 0.5,
            };
            // one case in eight: dense around the f32 overflow boundary (f32::MAX, the midpoint
            // f32::MAX + 2^103 above which the rounding overflows, 2^128) in f64 steps
            let hi = if ctx.chance(1, 8) {
                ctx.label("hi:f32-overflow-boundary");
                let u = ctx.bits(53) as f64 / 9007199254740992.0;
                f32::MAX as f64 + (u - 0.5) * oracle::big::pow2_f64(105)
            } else {
                hi
            };
            let hi = if ctx.flag() { -hi } else { hi };
            dd_at(ctx, hi)
        }
    };
    x.key(ctx);
    note_dd(ctx, "x", x);
    let t = x.tf();
    let f: f64 = t.into();
    let fr: f64 = (&t).into();
    let g: f32 = t.into();
    let gr: f32 = (&t).into();
    check!(ctx, same_word(f, x.hi) && same_word(fr, x.hi), "f64::from({}) = {} / {}", x.show(), showf(f), showf(fr));
    let w = x.hi as f32;
    check!(ctx, same_word(g as f64, w as f64) && same_word(gr as f64, w as f64), "f32::from({}) = {:e} expected {:e}", x.show(), g, w);
    let tf64 = ToPrimitive::to_f64(&t);
    check!(ctx, tf64.map(|v| same_word(v, x.hi)) == Some(true), "ToPrimitive::to_f64({}) = {:?}", x.show(), tf64);
    // float sources through NumCast / FromPrimitive are exact
    let src = f64_any(ctx);
    ctx.key_f64(src);
    note_f(ctx, "src", src);
    let a = <TwoFloat as num_traits::NumCast>::from(src).map(Dd::of);
    let b = <TwoFloat as num_traits::NumCast>::from(src as f32).map(Dd::of);
    if src.is_finite() {
        let ok = |d: Option<Dd>, v: f64| d.map(|d| d.valid() && d.big() == Big::from_f64(v)).unwrap_or(false);
        check!(ctx, ok(a, src), "<TwoFloat as NumCast>::from({}) = {:?}", showf(src), a.map(|d| d.show()));
        if (src as f32).is_finite() {
            check!(ctx, ok(b, (src as f32) as f64), "<TwoFloat as NumCast>::from({:e}f32) = {:?}", src as f32, b.map(|d| d.show()));
        }
    }
    ctx.set_nontrivial(x.lo != 0.0 || (src.is_finite() && src.abs() >= 9007199254740992.0));
}

pub fn c09() -> Property {
    Property {
        id: "C09",
        rule: "From: all values of i8/u8/i16/u16 (complete enumeration, each also converted back through every integer type), and for i32..u128 boundary values ±0..3, ±2^k±{0,1}, random bit lengths, (u64/i64 values also through FromPrimitive::from_usize/from_isize), the tie family m*2^k + 2^(k-1) - delta (remainder next to half an ulp of the f64 image, m odd/even) and sparse values; TryFrom/ToPrimitive/NumCast: valid x = B + d with B in {MIN, MAX, MAX+1, MIN-1, 0, -1, in-range} and d in {0, ±1, ±1/2, ±(1-2^-k), ±2^-k, ±2^k}, far out of range, small, and the non-finite pool; float routes on all classes. non-trivial = result with non-zero low word or type <= 32 bit (From); trunc(x) within 2 of a range end or |trunc(x)| <= 2 with a low word, or invalid x (TryFrom); distinct = distinct (type, value) pairs",
        assumptions: vec![],
        subchecks: vec![
            SubCheck { name: "from_small_exhaustive", kind: Kind::Enumerated { n: 512 + 2 * 65536 }, eval: c09_from_small, quick: 0, thorough: 0 },
            SubCheck { name: "from_wide", kind: Kind::Generated { words: 24, max_items: 0 }, eval: c09_from_wide, quick: 1_500_000, thorough: 60_000_000 },
            SubCheck { name: "try_from", kind: Kind::Generated { words: 40, max_items: 0 }, eval: c09_try, quick: 1_500_000, thorough: 60_000_000 },
            SubCheck { name: "floats", kind: Kind::Generated { words: 40, max_items: 0 }, eval: c09_floats, quick: 500_000, thorough: 10_000_000 },
        ],
    }
}
